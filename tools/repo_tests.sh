#!/bin/sh
# Runs the repository's pinned suite (guard off) and prints a summary: passed / failed counts and failing test names.
cd /repo
cargo test --workspace --no-fail-fast --offline "$@" > /verif/work/out/repo_tests.log 2>&1
python3 - <<'PY'
import re
t=open('/verif/work/out/repo_tests.log').read()
p=sum(int(m.group(1)) for m in re.finditer(r'test result: \w+\. (\d+) passed', t))
f=sum(int(m.group(1)) for m in re.finditer(r'test result: \w+\. \d+ passed; (\d+) failed', t))
names=sorted(set(re.findall(r'^test (\S+) \.\.\. FAILED', t, re.M)))
print('passed=%d failed=%d' % (p,f)); print('failing:', names)
PY
