#!/usr/bin/env python3
"""Orchestrator for the asn1rs runtime monitors (DESIGN.md 2).

  check.py <property> [--tier quick|thorough] [--replay path]

Builds what is stale from /repo's working tree, shards the workload over worker processes, merges the
per-shard reports, applies known_findings.json, writes evidence/<id>.json, prints VIOLATION /
KNOWN-FINDING / INCONCLUSIVE lines and sets the exit code: 0 held, 1 violation, 2 inconclusive.
"""
import json
import os
import subprocess
import sys
import time
from concurrent.futures import ThreadPoolExecutor

VERIF = os.path.dirname(os.path.dirname(os.path.abspath(__file__)))
HARNESS = os.path.join(VERIF, "harness")
WORK = os.path.join(VERIF, "work")
OUT = os.path.join(WORK, "out")
NCPU = os.cpu_count() or 4

ENV = dict(os.environ)
ENV["CARGO_NET_OFFLINE"] = "true"
ENV.setdefault("CARGO_TERM_COLOR", "never")
ENV["RUST_BACKTRACE"] = "0"

# ------------------------------------------------------------------------------------------------
# per-property configuration

PRIMMON = {"engine": "primmon"}
FRONTMON = {"engine": "frontmon"}
ZOO = {"engine": "zoo"}

PROPS = {
    # no Miri slice for C10: even a thinned enumeration did not finish one shard within 40 minutes (DESIGN.md 11.7)
    "C10": dict(PRIMMON, level="exploration", variants={"quick": ["checked", "wrapping"], "thorough": ["checked", "wrapping"]},
                shards={"quick": 16, "thorough": 16},
                assumptions=["R-prim transcribes X.691 (2015) ch. 11, 16, 17 from memory; guarded by unit vectors in vgen and by reading back own and canonical bits",
                             "bounded-exhaustive part as stated in rule; boundary families elsewhere"]),
    "C11": dict(PRIMMON, level="exploration", variants={"quick": ["checked", "wrapping"], "thorough": ["checked", "wrapping", "miri"]},
                shards={"quick": 16, "thorough": 16},
                assumptions=["the Vec<bool> model is the specification of a bit copy", "BitBuffer's read cursor is not observable directly; it is determined by draining"]),
    "C20": dict(PRIMMON, level="exploration", variants={"quick": ["checked", "wrapping"], "thorough": ["checked", "wrapping", "miri"]},
                shards={"quick": 4, "thorough": 8},
                assumptions=["R-der (X.690 8.1.2, 8.1.3) transcribed from memory for identifier and length octets; INTEGER contents judged by round trip only"]),
    "C07": dict(FRONTMON, level="exploration", variants={"quick": ["checked"], "thorough": ["checked"]}, shards={"quick": 16, "thorough": 16},
                assumptions=["the canonical projection P and my own resolver are the specification of 'what was declared'", "only the canonical layout (layout variation is C13)"]),
    "C08": dict(FRONTMON, level="exploration", variants={"quick": ["checked"], "thorough": ["checked"]}, shards={"quick": 16, "thorough": 16},
                assumptions=["text level only in this engine; compiled descriptor constants are compared with the schema by the zoo (Extractor shape events)"]),
    "C12": dict(FRONTMON, level="exploration", variants={"quick": ["checked"], "thorough": ["checked"]}, shards={"quick": 16, "thorough": 16},
                assumptions=["the literal variant is compared through asn1rs itself (same parser), so recorded C07 deviations do not interfere", "module matching follows the property: by name or by object identifier"]),
    "C13": dict(FRONTMON, level="exploration", variants={"quick": ["checked"], "thorough": ["checked"]}, shards={"quick": 16, "thorough": 16},
                assumptions=["R-lexer: tokens and (line, column) follow from the lexical items and the chosen separators (X.680 12)", "string literals avoid '--' and '/*' (the tokenizer has no string state)"]),
    "C14": dict(FRONTMON, level="fault_enumeration", variants={"quick": ["checked"], "thorough": ["checked"]}, shards={"quick": 16, "thorough": 16},
                assumptions=["'never hangs' is restated as: every input finishes within the batch watchdog (isolate-and-repeat before reporting a hang)",
                             "the sanctioned panic is recognised by message and by the input really having an unterminated block comment"]),
    "C15": dict(FRONTMON, level="exploration", variants={"quick": ["checked"], "thorough": ["checked"]}, shards={"quick": 16, "thorough": 16},
                assumptions=["R-inttype: unsigned iff lb >= 0, narrowest of the four widths, MIN/MAX/extensible => 64 bit (MIN => signed)"]),
    "C16": dict(FRONTMON, level="exploration", variants={"quick": ["checked"], "thorough": ["checked"]}, shards={"quick": 16, "thorough": 16},
                assumptions=["R-tags: X.680 8.6 canonical order, untagged CHOICE ordered by its smallest root tag (X.691 21.1), automatic tagging iff no component of the list is tagged",
                             "order among extension additions is judged by C02, not here"]),
    "C01": dict(ZOO, level="exploration", variants={"quick": ["checked"], "thorough": ["checked", "wrapping"]}, shards={"quick": 16, "thorough": 16},
                assumptions=["types are produced by the real front end + macro expansion + rustc from generated ASN.1; values enter through the Injector and are compared on the abstract level through the Extractor as well as with the derived PartialEq",
                             "depth <= 3, sizes <= 200000, history length <= 8"]),
    "C02": dict(ZOO, level="exploration", variants={"quick": ["checked"], "thorough": ["checked", "wrapping"]}, shards={"quick": 16, "thorough": 16},
                assumptions=["R-PER transcribes X.691 (2015) from memory (Appendix A of DESIGN.md); encoder and decoder of the reference are checked against each other on every case (a mismatch is INCONCLUSIVE)",
                             "recorded deviations are pinned by deviation models: the writer must match the alternative rule exactly"]),
    "C03": dict(ZOO, level="exploration", variants={"quick": ["checked"], "thorough": ["checked"]}, shards={"quick": 16, "thorough": 16},
                assumptions=["component types of known fixed width (INTEGER (0..7), BOOLEAN, INTEGER (0..255) DEFAULT 5)", "automatic tagging, so the canonical SET order equals the textual order"]),
    "C05": dict(ZOO, level="exploration", variants={"quick": ["checked"], "thorough": ["checked"]}, shards={"quick": 16, "thorough": 16},
                assumptions=["the expected view of the other version comes from the R-PER decoder run with the other version's schema"]),
    "C04": dict(ZOO, level="fault_enumeration", variants={"quick": ["checked"], "thorough": ["checked", "wrapping"]}, shards={"quick": 16, "thorough": 16},
                assumptions=["allocation bound: largest request and peak live bytes <= 64 MiB + 4096 x input octets", "'never hangs' = every batch finishes within the watchdog; a firing watchdog is repeated in isolation before it counts"]),
    "C09": dict(engine="c09", level="exploration", variants={"quick": ["checked"], "thorough": ["checked"]}, shards={"quick": 16, "thorough": 16},
                assumptions=["rustc's verdict (cargo check, edition 2021) is the oracle", "a module the front end rejects with Err satisfies the property; panics of the front end are judged by C14"]),
    "C17": dict(ZOO, level="exploration", variants={"quick": ["checked"], "thorough": ["checked", "wrapping"]}, shards={"quick": 16, "thorough": 16},
                assumptions=["protobuf equality is judged on abstract values: identical except that an absent OPTIONAL equals a present value that is the Rust Default of its type"]),
    "C18": dict(ZOO, level="exploration", variants={"quick": ["checked"], "thorough": ["checked"]}, shards={"quick": 16, "thorough": 16},
                assumptions=["the independent decoder follows the proto3 language guide and encoding document; BIT STRING uses asn1rs's documented bytes+length convention; top-level ENUMERATED values are bare varints and are not judged"]),
    "C19": dict(ZOO, level="exploration", variants={"quick": ["checked", "ddesc"], "thorough": ["checked", "ddesc"]}, shards={"quick": 16, "thorough": 16},
                assumptions=["both builds are produced from the same generated sources; only the asn1rs feature descriptive-deserialize-errors differs"]),
    "C06": dict(ZOO, level="exploration", variants={"quick": ["checked"], "thorough": ["checked", "wrapping"]}, shards={"quick": 16, "thorough": 16},
                assumptions=["only violating values the generated Rust type can hold are judged (u8 cannot hold 256)", "UTF8String SIZE is counted in characters, as the generated constraint does"]),
}


def log(msg):
    sys.stderr.write(msg + "\n")
    sys.stderr.flush()


def run(cmd, timeout=None, cwd=None, env=None):
    t0 = time.time()
    try:
        p = subprocess.run(cmd, cwd=cwd, env=env or ENV, stdout=subprocess.PIPE, stderr=subprocess.STDOUT, timeout=timeout)
        return p.returncode, p.stdout.decode("utf-8", "replace"), time.time() - t0
    except subprocess.TimeoutExpired as e:
        out = (e.stdout or b"").decode("utf-8", "replace")
        return -999, out, time.time() - t0


def cargo_build(package, variant, features=None):
    """Build one harness binary in one variant; returns (ok, binary path, log)."""
    if variant == "miri":
        return True, None, ""
    profile = {"checked": "checked", "wrapping": "wrapping", "ddesc": "checked"}[variant]
    target_dir = os.path.join(WORK, "target-" + variant)
    cmd = ["cargo", "build", "--offline", "--profile", profile, "-p", package, "--target-dir", target_dir]
    if features:
        cmd += ["--features", features]
    rc, out, dt = run(cmd, cwd=HARNESS, timeout=3600)
    log("[build] %s %s rc=%d %.1fs" % (package, variant, rc, dt))
    return rc == 0, os.path.join(target_dir, profile, package), out


# ------------------------------------------------------------------------------------------------
# report merging

def new_merged():
    return {"evaluations": 0, "distinct": set(), "samples": [], "violations": {}, "hist": {}, "inconclusive": [],
            "floor": {}, "exhaustive": True, "notes": [], "rule": "", "variants": {}}


def merge_into(m, r, variant):
    m["evaluations"] += r.get("evaluations", 0)
    m["variants"][variant] = m["variants"].get(variant, 0) + r.get("evaluations", 0)
    m["distinct"].update(r.get("distinct", []))
    for s in r.get("samples", []):
        if len(m["samples"]) < 10:
            m["samples"].append(s)
    for sig, f in r.get("violations", {}).items():
        e = m["violations"].setdefault(sig, {"count": 0, "witnesses": [], "class": None, "variants": set()})
        e["count"] += f.get("count", 0)
        e["variants"].add(variant)
        if e["class"] is None:
            e["class"] = f.get("class")
        for w in f.get("witnesses", []):
            if len(e["witnesses"]) < 3:
                e["witnesses"].append({"variant": variant, "witness": w})
    for t, tab in r.get("hist", {}).items():
        d = m["hist"].setdefault(t, {})
        for k, v in tab.items():
            d[k] = d.get(k, 0) + v
    for w in r.get("inconclusive", []):
        if w not in m["inconclusive"]:
            m["inconclusive"].append(w)
    for k, v in r.get("floor", {}).items():
        m["floor"][k] = m["floor"].get(k, 0) + v
    m["exhaustive"] = m["exhaustive"] and bool(r.get("exhaustive", False))
    for n in r.get("notes", []):
        if n not in m["notes"]:
            m["notes"].append(n)
    if r.get("rule"):
        m["rule"] = r["rule"]


# ------------------------------------------------------------------------------------------------
# engines

def run_workers(binary, prop, tier, seed, variant, nshards, extra=None, timeout=7200, miri=False):
    """Spawn nshards worker processes; returns (reports, problems)."""
    os.makedirs(OUT, exist_ok=True)
    reports, problems = [], []

    def one(i):
        outp = os.path.join(OUT, "%s-%s-%s-%d.json" % (prop, tier, variant, i))
        if os.path.exists(outp):
            os.remove(outp)
        args = ["--property", prop, "--tier", tier, "--seed", str(seed), "--shard", str(i), "--nshards", str(nshards),
                "--variant", variant, "--out", outp] + (extra or [])
        if miri:
            env = dict(ENV)
            env["MIRIFLAGS"] = "-Zmiri-disable-isolation"
            cmd = ["cargo", "+nightly", "miri", "run", "--offline", "-q", "-p", os.path.basename(binary), "--target-dir",
                   os.path.join(WORK, "target-miri"), "--"] + args + ["--miri"]
            rc, out, dt = run(cmd, cwd=HARNESS, env=env, timeout=timeout)
        else:
            rc, out, dt = run([binary] + args, cwd=VERIF, timeout=timeout)
        if rc == 0 and os.path.exists(outp):
            try:
                with open(outp) as f:
                    return json.load(f), None, out
            except Exception as e:  # noqa
                return None, "shard %d of %s/%s: unreadable report (%s)" % (i, prop, variant, e), out
        if rc == -999:
            return None, "shard %d of %s/%s: watchdog (%.0fs)" % (i, prop, variant, dt), out
        return None, "shard %d of %s/%s: worker exited with %d: %s" % (i, prop, variant, rc, out[-400:].replace("\n", " | ")), out

    with ThreadPoolExecutor(max_workers=min(NCPU, nshards)) as ex:
        for rep, prob, out in ex.map(one, range(nshards)):
            if rep is not None:
                reports.append(rep)
            if prob:
                problems.append(prob)
            if miri and out and ("Undefined Behavior" in out or "error: unsupported operation" in out):
                problems.append("MIRI-REPORT: " + out[-1500:])
    return reports, problems


def engine_primmon(prop, cfg, tier, seed, merged, package="primmon"):
    problems = []
    for variant in cfg["variants"][tier]:
        if variant == "miri":
            reps, probs = run_workers(package, prop, tier, seed, "miri", min(NCPU, 8), timeout=3000, miri=True)
            miri_reports = [p for p in probs if p.startswith("MIRI-REPORT")]
            for p in miri_reports:
                merged["violations"].setdefault("miri:undefined-behaviour", {"count": 0, "witnesses": [], "class": None, "variants": set()})
                merged["violations"]["miri:undefined-behaviour"]["count"] += 1
                merged["violations"]["miri:undefined-behaviour"]["variants"].add("miri")
                merged["violations"]["miri:undefined-behaviour"]["witnesses"].append({"variant": "miri", "witness": p[-800:]})
            problems += [p for p in probs if not p.startswith("MIRI-REPORT")]
            for r in reps:
                merge_into(merged, r, "miri")
            continue
        ok, binary, out = cargo_build(package, variant)
        if not ok:
            problems.append("build of %s (%s) failed: %s" % (package, variant, out[-600:].replace("\n", " | ")))
            continue
        reps, probs = run_workers(binary, prop, tier, seed, variant, cfg["shards"][tier])
        problems += probs
        for r in reps:
            merge_into(merged, r, variant)
    return problems


def engine_frontmon(prop, cfg, tier, seed, merged):
    return engine_primmon(prop, cfg, tier, seed, merged, package="frontmon")


def known_classes():
    return sorted({k["class"] for k in load_known() if k.get("status") == "known" and k.get("class")})


def zoo_prepare(tier, seed, variant, problems, features=None):
    """zoogen + cargo build of the zoo for one variant; returns the zoorun binary or None."""
    ok, zoogen, out = cargo_build("zoogen", "checked")
    if not ok:
        problems.append("build of zoogen failed: %s" % out[-600:].replace("\n", " | "))
        return None, None
    zoo = os.path.join(WORK, "zoo-%s-%d" % (tier, seed))
    shards = 8 if tier == "quick" else 16
    profile = "checked" if variant in ("checked", "ddesc") else "wrapping"
    target_dir = os.path.join(WORK, "target-zoo-" + variant)
    # The target directory (and with it the compiled dependencies) is shared by the zoos of all (tier, seed). Cargo
    # derives the artifact hash of a workspace member from its path *relative to the workspace*, so shard_3 of one zoo
    # and shard_3 of another are the same artifact to it and a "fresh" one would be reused across zoos. When the zoo
    # changes, the artifacts of the generated crates are dropped first.
    import glob as _glob
    import shutil as _shutil
    marker = os.path.join(target_dir, "CURRENT_ZOO")
    current = "%s-%d" % (tier, seed)
    try:
        with open(marker) as fh:
            previous = fh.read().strip()
    except OSError:
        previous = None
    if previous != current:
        for pat in ("deps/libshard_*", "deps/shard_*", "deps/zoorun*", ".fingerprint/shard_*", ".fingerprint/zoorun*", "zoorun*", "incremental/shard_*", "incremental/zoorun*"):
            for pth in _glob.glob(os.path.join(target_dir, profile, pat)):
                if os.path.isdir(pth):
                    _shutil.rmtree(pth, ignore_errors=True)
                else:
                    try:
                        os.remove(pth)
                    except OSError:
                        pass
        os.makedirs(target_dir, exist_ok=True)
        with open(marker, "w") as fh:
            fh.write(current)
    exclude = []
    excl_file = os.path.join(zoo, "excluded.json")
    for attempt in range(6):
        cmd = [zoogen, "--tier", tier, "--seed", str(seed), "--out", zoo, "--shards", str(shards)]
        if exclude:
            cmd += ["--exclude", ",".join(exclude)]
        rc, out, dt = run(cmd, cwd=VERIF, timeout=1800)
        if rc != 0:
            problems.append("zoogen failed: %s" % out[-600:].replace("\n", " | "))
            return None, None
        # 16 shard crates in parallel came within a few GB of the 62 GB here (one rustc was OOM-killed once): 10 jobs
        cmd = ["cargo", "build", "--offline", "--profile", profile, "--target-dir", target_dir, "--message-format=json", "-j", "10"]
        if features:
            cmd += ["-p", "zoorun", "--features", features]
        rc, raw, dt = run(cmd, cwd=zoo, timeout=7200)
        log("[zoo] build %s attempt %d rc=%d %.1fs" % (variant, attempt, rc, dt))
        # the target directory is shared by all (tier, seed) zoos; each zoo's binary has a name of its own (zoogen), so a
        # fresh build of one zoo can never leave another zoo's executable behind under the expected name
        executable, rendered = None, []
        for line in raw.splitlines():
            if not line.startswith("{"):
                rendered.append(line)
                continue
            try:
                m = json.loads(line)
            except ValueError:
                continue
            if m.get("reason") == "compiler-artifact" and m.get("target", {}).get("name") == "zoorun_%s_%d" % (tier, seed) and m.get("executable"):
                executable = m["executable"]
            elif m.get("reason") == "compiler-message":
                rendered.append(m["message"].get("rendered") or "")
        out = "\n".join(rendered)
        if rc == 0:
            if not executable:
                problems.append("zoo build reported no executable for %s" % zoo)
                return None, None
            with open(excl_file, "w") as fh:
                json.dump(exclude, fh)
            return executable, zoo
        # attribute compile errors to groups: paths look like shard_3/src/g_17/zm17x0.rs
        import re
        bad = sorted(set(re.findall(r"shard_\d+/src/((?:g|c)_\d+)/", out)))
        new = [b for b in bad if b not in exclude]
        if not new:
            problems.append("zoo build failed without an attributable module: %s" % out[-800:].replace("\n", " | "))
            return None, None
        log("[zoo] excluding groups after compile errors (C09 observations): %s" % ",".join(new))
        exclude += new
    problems.append("zoo build did not converge")
    return None, None


def engine_zoo(prop, cfg, tier, seed, merged):
    problems = []
    classes = known_classes()
    for variant in cfg["variants"][tier]:
        binary, zoo = zoo_prepare(tier, seed, variant, problems, features="ddesc" if variant == "ddesc" else None)
        if not binary:
            continue
        extra = ["--schema", os.path.join(zoo, "schema.json"), "--known-classes", ",".join(classes)]
        if "set-additions-unsorted" in classes:
            extra.append("--set-additions-sorted")
        reps, probs = run_workers(binary, prop, tier, seed, variant, cfg["shards"][tier], extra=extra)
        problems += probs
        for r in reps:
            merge_into(merged, r, variant)
        try:
            with open(os.path.join(zoo, "excluded.json")) as fh:
                ex = json.load(fh)
            if ex:
                merged["notes"].append("zoo groups excluded after compile errors (C09 observations): %s" % ",".join(ex))
        except Exception:  # noqa
            pass
    if prop == "C19":
        c19_compare(cfg, tier, merged, problems)
    return problems


def c19_compare(cfg, tier, merged, problems):
    """line-by-line comparison of the outcome tables written by the two feature builds"""
    compared = differing = 0
    for i in range(cfg["shards"][tier]):
        pa = os.path.join(OUT, "C19-%s-checked-%d.json.table" % (tier, i))
        pb = os.path.join(OUT, "C19-%s-ddesc-%d.json.table" % (tier, i))
        if not (os.path.exists(pa) and os.path.exists(pb)):
            problems.append("C19: outcome table of shard %d missing for one of the builds" % i)
            continue
        with open(pa) as fa, open(pb) as fb:
            la, lb = fa.read().split("\n"), fb.read().split("\n")
        shard_diff = 0
        for a, b in zip(la, lb):
            compared += 1
            if a == b:
                continue
            fa_, fb_ = a.split(" "), b.split(" ")
            if fa_[:5] != fb_[:5]:
                # inputs derived from what an earlier input decoded to (corpus types) diverge after a differing line;
                # without such a line the builds did not run the same workload and nothing can be said
                if shard_diff == 0:
                    problems.append("C19: tables of shard %d are not aligned (%s / %s) although no earlier line differs" % (i, " ".join(fa_[:3]), " ".join(fb_[:3])))
                break
            differing += 1
            shard_diff += 1
            oa, ob = fa_[6].split(":")[0:2], fb_[6].split(":")[0:2]
            import re as _re
            ka = oa[0] if oa[0] == "Ok" else _re.match(r"[A-Za-z0-9:_]*", ":".join(oa)).group(0)[:60]
            kb = ob[0] if ob[0] == "Ok" else _re.match(r"[A-Za-z0-9:_]*", ":".join(ob)).group(0)[:60]
            what = "outcome" if fa_[6] != fb_[6] else "consumed-bits"
            sig = "c19:%s-differs:default=%s:descriptive=%s" % (what, ka.split("(")[0], kb.split("(")[0])
            e = merged["violations"].setdefault(sig, {"count": 0, "witnesses": [], "class": None, "variants": set()})
            e["count"] += 1
            e["variants"].update(["checked", "ddesc"])
            if len(e["witnesses"]) < 3:
                e["witnesses"].append({"variant": "checked+ddesc", "witness": {"type_id": fa_[0], "type": fa_[1], "input_index": fa_[2], "bit_len": fa_[3], "input_hex": fa_[4],
                                                                              "default_build": {"consumed": fa_[5], "outcome": fa_[6]}, "descriptive_build": {"consumed": fb_[5], "outcome": fb_[6]}}})
        if len(la) != len(lb) and shard_diff == 0:
            problems.append("C19: outcome tables of shard %d have different lengths (%d / %d) although no line differs" % (i, len(la), len(lb)))
        for pth in (pa, pb):
            try:
                os.remove(pth)
            except OSError:
                pass
    merged["hist"].setdefault("table-comparison", {})["lines-compared"] = compared
    merged["hist"]["table-comparison"]["lines-differing"] = differing
    merged["floor"]["c19:table-lines-compared"] = compared


def engine_c09(prop, cfg, tier, seed, merged):
    """generate the compile families, run cargo check over them, attribute every rustc error to its module"""
    import re
    problems = []
    ok, zoogen, out = cargo_build("zoogen", "checked")
    if not ok:
        return ["build of zoogen failed: %s" % out[-600:].replace("\n", " | ")]
    zoo = os.path.join(WORK, "zoo-c09-%s-%d" % (tier, seed))
    target_dir = os.path.join(WORK, "target-zoo-c09")
    exclude, errors = [], {}
    groups = []
    converged = False
    for attempt in range(10):
        cmd = [zoogen, "--tier", tier, "--seed", str(seed), "--out", zoo, "--shards", "16", "--families", "c09kw,c09col,c09const,c09int,c09rand", "--compile-only"]
        if exclude:
            cmd += ["--exclude", ",".join(exclude)]
        rc, out, dt = run(cmd, cwd=VERIF, timeout=1800)
        if rc != 0:
            return ["zoogen failed: %s" % out[-600:].replace("\n", " | ")]
        with open(os.path.join(zoo, "groups.json")) as fh:
            groups = json.load(fh)
        rc, out, dt = run(["cargo", "check", "--offline", "--keep-going", "--profile", "checked", "--target-dir", target_dir, "--message-format=json"], cwd=zoo, timeout=7200)
        log("[c09] cargo check attempt %d rc=%d %.1fs" % (attempt, rc, dt))
        new = []
        unattributed = []
        for line in out.splitlines():
            if not line.startswith("{"):
                continue
            try:
                m = json.loads(line)
            except ValueError:
                continue
            if m.get("reason") != "compiler-message" or m["message"].get("level") != "error":
                continue
            msg = m["message"]
            if msg["message"].startswith("aborting due to") or msg["message"].startswith("could not compile"):
                continue
            grp, snippet = None, ""

            def walk(span):
                nonlocal grp, snippet
                while span is not None:
                    mm = re.search(r"shard_\d+/src/((?:g|c)_\d+)/", span.get("file_name", ""))
                    if mm and grp is None:
                        grp = mm.group(1)
                        snippet = " | ".join(t.get("text", "") for t in span.get("text", []))[:300]
                    exp = span.get("expansion")
                    span = exp.get("span") if exp else None
            for sp in sorted(msg.get("spans", []), key=lambda x: not x.get("is_primary")):
                walk(sp)
            if grp is None:
                unattributed.append(msg["message"][:200])
                continue
            code = (msg.get("code") or {}).get("code") or "no-code"
            errors.setdefault(grp, []).append({"code": code, "message": msg["message"][:400], "rendered": (msg.get("rendered") or "")[:900], "source": snippet})
            if grp not in exclude and grp not in new:
                new.append(grp)
        if rc == 0:
            converged = True
            break
        if not new:
            problems.append("C09: cargo check fails without an attributable module: %s" % " | ".join(unattributed[:3] or [out[-400:].replace("\n", " | ")]))
            break
        exclude += new
    if not converged and not problems:
        problems.append("C09: cargo check did not converge within 10 rounds of exclusion")
    # verdicts per group
    merged["rule"] = ("every generated module (Rust keywords x 8 identifier positions, identifiers that meet after mangling, names of the prelude / of generated items / of methods, "
                      "value references and DEFAULTs of every literal kind with boundary and awkward literals, random modules from the full front-end grammar with the hostile identifier pool; "
                      "through the Converter and through asn_to_rust!) that the real front end accepts is compiled by rustc (cargo check --keep-going) inside a crate that depends on /repo; "
                      "modules with errors are excluded and the check repeated until the rest compiles, so that every failing module is seen. "
                      "A front-end Err is fine, a rustc error is a violation. distinct = modules that were accepted and compiled")
    merged["exhaustive"] = False

    def norm(msg):
        msg = re.sub(r"`[^`]*`", "`_`", msg)
        msg = re.sub(r"\d+", "N", msg)
        return msg[:110]
    for g in groups:
        merged["evaluations"] += 1
        merged["variants"]["checked"] = merged["variants"].get("checked", 0) + 1
        fam = g["family"]
        h = merged["hist"].setdefault("outcomes", {})
        note = g.get("note") or {}
        if note.get("construct"):
            c = merged["hist"].setdefault("constructs", {})
            c[note["construct"].split(":")[0]] = c.get(note["construct"].split(":")[0], 0) + 1
        if "rejected" in g:
            k = "%s:rejected-by-front-end" % fam
            h[k] = h.get(k, 0) + 1
            if "panicked" in g["rejected"]:
                hh = merged["hist"].setdefault("front-end-panics(judged-by-C14)", {})
                hh[g["rejected"][:80]] = hh.get(g["rejected"][:80], 0) + 1
            continue
        name = g["group"]
        if name in errors:
            k = "%s:rustc-error" % fam
            h[k] = h.get(k, 0) + 1
            construct = note.get("construct", "random-module")
            # root-cause classes of recorded findings; an error outside these classes takes precedence, so that a
            # new defect in a module that also shows a recorded one is still reported under its own message
            def klass(e):
                m = e["message"]
                if "cannot apply unary operator `-` to type `u" in m:
                    return "negative-literal-for-unsigned-type"
                if "BitVec" in m and ("ToOwned" in m or "compare" in m):
                    return "bit-string-default"
                r = e.get("rendered", "")
                if "mismatched types" in m and ("expected `u64`, found `[{integer}" in r or "expected `&u64`, found `&[{integer}" in r):
                    return "bit-string-default"  # BIT STRING value reference / DEFAULT given as hstring or bstring
                if "is defined multiple times" in m or "duplicate definitions with name" in m:
                    return "names-meet-after-mangling"
                if "expected identifier, found keyword `Self`" in m:
                    return "identifier-Self"
                return None
            classified = [(klass(e), e) for e in errors[name]]
            if any(k == "names-meet-after-mangling" for k, _ in classified):
                # rustc's follow-on errors of a duplicate definition
                # (two items under one name: every later error of this module may be a consequence, rustc's list is open-ended)
                classified = [("names-meet-after-mangling" if k is None else k, e) for k, e in classified]
            unknown = [e for k, e in classified if k is None]
            if fam == "c09rand":
                first = unknown[0] if unknown else classified[0][1]
                sig = "c09:rustc:random-module:%s" % (("%s:%s" % (first["code"], norm(first["message"]))) if unknown else classified[0][0])
            else:
                first = errors[name][0]
                k = klass(first)
                sig = "c09:rustc:%s:%s" % (construct, k if k else "%s:%s" % (first["code"], norm(first["message"])))
            e = merged["violations"].setdefault(sig, {"count": 0, "witnesses": [], "class": None, "variants": set()})
            e["count"] += 1
            e["variants"].add("checked")
            if len(e["witnesses"]) < 3:
                e["witnesses"].append({"variant": "checked", "witness": {"group": name, "family": fam, "construct": note.get("construct"), "identifier": note.get("identifier"), "inline_macro": g.get("inline_macro"),
                                                                         "asn1": g.get("asn1"), "errors": errors[name][:4]}})
        else:
            k = "%s:compiled" % fam
            h[k] = h.get(k, 0) + 1
            merged["distinct"].add(hash((name, tuple(g.get("asn1") or []))) & 0xFFFFFFFFFFFF)
            merged["floor"]["compiled:%s" % fam] = merged["floor"].get("compiled:%s" % fam, 0) + 1
    for fam in ("c09kw", "c09col", "c09pre", "c09const", "c09int", "c09rand"):
        merged["floor"].setdefault("compiled:%s" % fam, 0)
    for g in groups[:400:57]:
        if "rejected" not in g and len(merged["samples"]) < 8:
            merged["samples"].append({"group": g["group"], "family": g["family"], "note": g.get("note"), "asn1": (g.get("asn1") or [""])[0][:400]})
    return problems


ENGINES = {"primmon": engine_primmon, "frontmon": engine_frontmon, "zoo": engine_zoo, "c09": engine_c09}

# ------------------------------------------------------------------------------------------------
# verdict


def load_known():
    path = os.path.join(VERIF, "known_findings.json")
    if not os.path.exists(path):
        return []
    with open(path) as f:
        return json.load(f).get("findings", [])


def main():
    args = sys.argv[1:]
    if not args or args[0] not in PROPS and args[0] not in ("--list",):
        print("usage: check.py <property> [--tier quick|thorough]\nproperties: " + " ".join(sorted(PROPS)))
        return 2
    if args[0] == "--list":
        print(" ".join(sorted(PROPS)))
        return 0
    prop = args[0]
    tier = os.environ.get("VERIF_TIER", "quick")
    if "--tier" in args:
        tier = args[args.index("--tier") + 1]
    try:
        seed = int(os.environ.get("VERIF_SEED", "1"))
    except ValueError:
        seed = 1
    cfg = PROPS[prop]
    if "--replay" in args:
        # re-run the workload that produced a witness (same tier and seed: every workload is a function of them) against the
        # current tree and say whether the recorded signature shows again; evidence and replay files are left alone
        path = args[args.index("--replay") + 1]
        with open(path) as fh:
            rec = json.load(fh)
        tier, seed = rec.get("tier", tier), int(rec.get("seed", seed))
        merged = new_merged()
        problems = ENGINES[cfg["engine"]](prop, cfg, tier, seed, merged)
        sig = rec.get("signature")
        hit = merged["violations"].get(sig)
        print("REPLAY property=%s tier=%s seed=%d signature=%s" % (prop, tier, seed, sig))
        for w in rec.get("witnesses", [])[:1]:
            print("RECORDED-WITNESS " + json.dumps(w)[:1500])
        if hit:
            print("REPRODUCED count=%d" % hit["count"])
            for w in hit["witnesses"][:1]:
                print("CURRENT-WITNESS " + json.dumps(w)[:1500])
            print("VIOLATION property=%s replay=%s" % (prop, path))
            return 1
        for pr in problems:
            print("INCONCLUSIVE property=%s reason=%s" % (prop, pr[:300]))
        print("NOT-REPRODUCED (the signature does not occur on the current tree)")
        return 2 if problems else 0
    t0 = time.time()
    merged = new_merged()
    problems = ENGINES[cfg["engine"]](prop, cfg, tier, seed, merged)
    wall = time.time() - t0

    known = [k for k in load_known() if k.get("property") == prop]
    known_sigs = {k["signature"]: k for k in known if k.get("status") == "known"}
    violations, known_hits = [], []
    for sig, f in sorted(merged["violations"].items()):
        if sig in known_sigs:
            known_hits.append((sig, f))
        else:
            violations.append((sig, f))

    inconclusive = list(problems) + list(merged["inconclusive"])
    if merged["evaluations"] == 0:
        inconclusive.append("no evaluations")
    for cell, n in sorted(merged["floor"].items()):
        if n == 0:
            inconclusive.append("coverage floor missed: " + cell)
    distinct = len(merged["distinct"])
    if distinct < 2 and merged["evaluations"] > 0:
        inconclusive.append("fewer than 2 distinct non-trivial cases")

    # replay files + output lines
    lines = []
    replay_dir = os.path.join(VERIF, "replay", prop)
    if os.path.isdir(replay_dir):
        for fn in os.listdir(replay_dir):
            if fn.endswith(".json"):
                os.remove(os.path.join(replay_dir, fn))
    if violations:
        os.makedirs(replay_dir, exist_ok=True)
    for n, (sig, f) in enumerate(violations):
        path = os.path.join(replay_dir, "%d.json" % n)
        with open(path, "w") as fh:
            json.dump({"property": prop, "tier": tier, "seed": seed, "signature": sig, "count": f["count"],
                       "variants": sorted(f["variants"]), "witnesses": f["witnesses"]}, fh, indent=1, default=str)
        lines.append("VIOLATION property=%s replay=%s signature=%s count=%d" % (prop, path, sig, f["count"]))
    for sig, f in known_hits:
        lines.append("KNOWN-FINDING: property=%s %s (%d cases; %s)" % (prop, sig, f["count"], known_sigs[sig].get("what", "")))
    for w in inconclusive:
        lines.append("INCONCLUSIVE property=%s reason=%s" % (prop, w))

    evidence = {
        "property_id": prop,
        "tier": tier,
        "seed": seed,
        "level": cfg["level"],
        "coverage": {
            "evaluations": merged["evaluations"],
            "distinct_nontrivial": distinct,
            "rule": merged["rule"],
            "samples": merged["samples"][:8] or [{"note": "no sample recorded"}],
            "exhaustive": bool(merged["exhaustive"] and "exhaustive" in merged["rule"]),
            "build_variants": merged["variants"],
            "histograms": {t: (tab if len(tab) <= 80 else {"distinct_keys": len(tab), "total": sum(tab.values()),
                                                            "top": dict(sorted(tab.items(), key=lambda kv: -kv[1])[:40])})
                           for t, tab in merged["hist"].items()},
            "coverage_floor": merged["floor"],
            "known_findings_matched": {sig: f["count"] for sig, f in known_hits},
            "unlisted_violation_signatures": {sig: f["count"] for sig, f in violations},
            "inconclusive_reasons": inconclusive,
            "notes": merged["notes"],
        },
        "assumptions": cfg.get("assumptions", []),
        "wall_s": round(wall, 2),
        "violations": sum(f["count"] for _, f in violations),
    }
    os.makedirs(os.path.join(VERIF, "evidence"), exist_ok=True)
    with open(os.path.join(VERIF, "evidence", prop + ".json"), "w") as fh:
        json.dump(evidence, fh, indent=1, default=str)

    for l in lines:
        print(l)
    verdict = "violated" if violations else ("inconclusive" if inconclusive else "held")
    print("RESULT property=%s tier=%s seed=%d verdict=%s evaluations=%d distinct=%d known=%d wall=%.1fs" % (
        prop, tier, seed, verdict, merged["evaluations"], distinct, len(known_hits), wall))
    if violations:
        return 1
    if inconclusive:
        return 2
    return 0


if __name__ == "__main__":
    sys.exit(main())
