#!/usr/bin/env python3
"""Generates MANIFEST.json from the table below (kept in one place so it stays consistent)."""
import json, os
VERIF = os.path.dirname(os.path.dirname(os.path.abspath(__file__)))

CHECKS = {
 "C20": dict(engine="primmon", category="exploration", technique="runtime monitor: round-trip + byte-consumption oracle with sentinel bytes over enumerated boundary families, R-der reference for identifier/length octets, checked + wrapping builds, Miri slice (thorough)",
   text="Every DER primitive call is executed against the real code under two rustc 'sanitizer' builds (overflow-checks/debug-assertions on, and both off); a monitor compares value read == value written, bytes consumed == bytes written (sentinels untouched) and the identifier/length octets with X.690. Exhaustive for the enumerated neighbourhoods of 2^(7k)/2^(8k), all 124 tags, all 256 boolean octets; random supplement seeded by VERIF_SEED. Held on the executions observed, not a proof.",
   design_ref="5 (C20)", note="trusted: the monitor's own X.690 8.1.2/8.1.3 transcription; rustc overflow/bounds checks as the sanitizer; Miri only in the thorough tier on a reduced slice"),
 "C10": dict(engine="primmon", category="exploration", technique="runtime monitor: reference-model comparison (R-prim bit patterns from X.691) + read-back of own and canonical bits with cursor check, bounded-exhaustive argument enumeration incl. inadmissible arguments, checked + wrapping builds, fork sandbox for allocation aborts, Miri slice (thorough)",
   text="Every public PackedWrite/PackedRead primitive is run on the real code for an enumerated argument space (exhaustive for lb in [-40,40] x |range| <= 300 x every value, index/length tables, boundary families, strings to 200000 items with every fragment-count class) and the produced bits are compared bit for bit with an independent closed-form model of X.691 ch. 11/16/17; the bits are read back (value, cursor position), and the canonical pattern is read as well when the writer deviates. Inadmissible arguments must give Err: a panic (checked build) or Ok/wrapped value (wrapping build) is a violation. Held on the executions observed.",
   design_ref="5 (C10)", note="trusted: my transcription of X.691 in vgen::per (unit-tested widths/octets, cross-checked by the repo's own pinned fixtures through the typed checks); classification of which arguments are admissible (empty/absent extensible roots are treated as unspecified: only no-panic is demanded)"),
 "C11": dict(engine="primmon", category="exploration", technique="runtime monitor: naive Vec<bool> reference model compared after every operation (destination bytes, cursor, buffer length, padding bits), bounded-exhaustive grid + random operation histories, checked + wrapping builds, Miri slice (thorough)",
   text="Every BitRead/BitWrite entry point of (&[u8],&mut usize), (&mut [u8],&mut usize), BitBuffer and Bits is executed for all (src_offset, dst_position, len) in [0,33]^3 (quick; [0,41]^3 thorough) over buffers of 0..3 (0..5) bytes with four fill patterns - including out-of-range arguments, which must fail with Err and leave bytes and cursor untouched - plus random tuples to 64 bytes and random histories of up to 60 mixed operations on a BitBuffer mirrored on the model; after each operation the monitor compares every destination bit, the cursor, byte_len == ceil(bit_len/8) and zero padding. All 1024 (src%8, dst%8, len%8, len>16) classes must be seen (coverage floor).",
   design_ref="5 (C11)", note="trusted: the Vec<bool> model; BitBuffer's read cursor is only observable through subsequent reads (drain at the end of each history)"),
 "C07": dict(engine="frontmon", category="exploration", technique="runtime monitor: canonical-projection equality between an independent AST (own printer + own resolver) and asn1rs's parsed+resolved model, over grammar-generated modules; all differences per module reported with construct-level signatures; production-coverage floor",
   text="Random modules covering every production of the supported subset are printed and pushed through the real Tokenizer, Model::try_from and try_resolve; a projection P of the result (names, order, kinds, ranges incl. MIN/MAX, named numbers, SIZE forms and extensibility, tags with class, OPTIONAL/DEFAULT and literals, extension position, imports, OIDs, value assignments) must equal P of the generator's own AST. Every production has a coverage floor. Recorded deviations are pinned by exact signature and, for bstring literals, by a deviation model of the stored octets.",
   design_ref="5 (C07)", note="trusted: my printer/resolver/projection; two identifications only (SIZE(0..MAX) = none, SIZE(n..n) = SIZE(n)); (MIN..MAX) = unconstrained"),
 "C13": dict(engine="frontmon", category="exploration", technique="runtime monitor: R-lexer (expected tokens with line/column derived from lexical items + chosen separators) compared with Tokenizer::parse on re-layouts; model equality against the canonical layout; separator-kind coverage floor",
   text="Each generated module is re-laid out 20 times by a token-level printer choosing separators from 15 kinds (blank, tab, LF, CRLF, line comments spaced/attached, block comments spaced/attached/nested/with dashes/with stars/banner/multi-line, empty) under 6 styles; the real tokenizer's tokens must equal the R-lexer's in kind, content, line and column, and Model::try_from must equal the canonical layout's model field by field.",
   design_ref="5 (C13)", note="trusted: R-lexer; string literals avoid '--' and '/*'; comment texts never contain comment delimiters other than the generated ones"),
 "C14": dict(engine="frontmon", category="fault_enumeration", technique="fault injection (1..4 token/char faults on valid modules, token soups) with panic journal, fork sandbox (aborts, watchdog) and an error-token-at-location oracle through all five front-end stages",
   text="40000 (quick) / 2 million (thorough) faulty inputs derived from generated modules and from the repository's own inline test modules run through Tokenizer, parser, resolver, Rust model + generator and protobuf model + generator under catch_unwind in forked batches. Any panic other than the documented unterminated-comment one (recognised by message and by the input really having an open block comment), any abort or reproducible watchdog timeout is a violation; every parse error must carry a token that is found at its reported location in the input.",
   design_ref="5 (C14)", note="'never hangs' = finishes within the batch watchdog with isolate-and-repeat; stack exhaustion by thousands of nesting levels is outside the fault model"),
 "C15": dict(engine="frontmon", category="exploration", technique="runtime monitor: reference model R-inttype compared with Model::to_rust() and with the generated accessor text, exhaustive over the boundary set",
   text="All ordered bound pairs over B = {0, +-1, +-2^k, +-2^k+-1 (k <= 63)} u [-20,20], each bound also MIN/MAX, plain and extensible (163k constraints thorough; a strided 57k quick), as tuple type and as SEQUENCE field, fed to the real to_rust(); the chosen RustType must hold [lo,hi], have the right signedness, be the narrowest, be 64 bit for MIN/MAX/extensible; the generated *_min()/*_max() accessors are parsed from RustCodeGenerator output and compared with the declared bounds (open ends must not be cut off).",
   design_ref="5 (C15)", note="trusted: R-inttype as stated in DESIGN.md; 22 recorded signatures for the (MIN..ub)/unconstrained mapping (known findings)"),
 "C08": dict(engine="frontmon", category="exploration", technique="runtime monitor: generator -> attribute parser round trip on every definition of generated modules and of the repository's inline test modules, PartialEq on the Rust model with a construct-level diff signature; macro expansion executed under the panic journal",
   text="For every definition of 1000 (quick) / 10000 (thorough) generated modules plus the repo's own inline test modules, the text RustCodeGenerator emits is split into attribute and item, parsed by the real proc_macro::parse_asn_definition, converted with to_rust() and compared (PartialEq) with the definition it was generated from, modulo the sanctioned derived tag of an untagged CHOICE; expand() must not panic and must emit constraint impls. Differences are signed by the Rust-model constructors around the first differing word.",
   design_ref="5 (C08)", note="text level; the comparison of compiled descriptor constants with the source schema is done by the zoo monitors (Extractor shape events) and reported under the zoo checks"),
 "C12": dict(engine="frontmon", category="exploration", technique="runtime monitor: differential resolution (referencing variant vs literal variant through the real MultiModuleResolver) over generated reference placements, import forms, decoy modules and all load orders; negative variants must yield the documented resolve errors",
   text="A random subset of range bounds, SIZE bounds and DEFAULT literals of a generated module is replaced by fresh value references placed before/after use or in a sibling module imported by name, name+matching OID, name+differing OID or name+OID while the sibling has none; up to two decoy modules (unrelated OID, none, OID extending or prefixing the imported one) define the same names with other values; every load order (<= 24) is resolved with try_resolve_all and the definitions must equal those of the literal variant. Dropped definitions/imports, an unloaded sibling and a bound pointing at a BOOLEAN/string value must give FailedToResolveReference/Type resp. FailedToParseLiteral.",
   design_ref="5 (C12)", note="module matching by name or OID as the property states; the literal variant goes through the same parser so recorded C07 deviations cancel out"),
 "C16": dict(engine="frontmon", category="exploration", technique="runtime monitor: R-tags reference (X.680 8.6 order, tag assignment) compared with the field order and TAG constants read from the real macro expansion, all permutations of <= 5 components over four tag patterns",
   text="SET and SEQUENCE definitions over builtin types with distinct universal tags, references to tagged types, to SEQUENCE/SET types and to untagged (extensible) CHOICEs, under the patterns automatic / all-context / mixed classes / partly tagged, with the extension marker at random positions, in all n! textual orders (n <= 4 quick, 5 thorough): the order in which the expanded read_seq/write_seq visit the fields must be the canonical root order followed by the additions, SEQUENCE must keep textual order, and every field's expanded TAG constant must equal the R-tags assignment.",
   design_ref="5 (C16)", note="text level (macro expansion); order among extension additions is judged by C02; the compiled-level check with values (bits vs R-PER, Debug by field name) is part of the zoo"),
}

NOT_YET = {}

def main():
    props = [json.loads(l) for l in open(os.path.join(VERIF, "properties.jsonl"))]
    checks = []
    for p in props:
        pid = p["id"]
        if pid in CHECKS:
            c = CHECKS[pid]
            checks.append({
                "property_id": pid,
                "quick_cmd": "./check %s --tier quick" % pid,
                "thorough_cmd": "./check %s --tier thorough" % pid,
                "evidence_file": "/verif/evidence/%s.json" % pid,
                "replay_cmd_template": "./check %s --replay {path}" % pid,
                "engine": c["engine"],
                "level_claimed": {"category": c["category"], "text": c["text"], "design_ref": "DESIGN.md section " + c["design_ref"]},
                "level_note": c["note"],
                "technique": c["technique"],
            })
    na = [{"property_id": p["id"], "reason": NOT_YET.get(p["id"], "not claimed yet: the monitor for this property is still under construction in this working session (no technique switch intended; see DESIGN.md section 5)")}
          for p in props if p["id"] not in CHECKS]
    manifest = {
        "version": 1,
        "setup_cmd": "./tools/setup.sh",
        "hooks": {
            "guard": "--cfg asn1rs_verif",
            "enable": "none needed: monitors interpose on asn1rs's public generic traits (Reader, Writer, ScopedBitRead, BitRead, BitWrite, descriptor Constraint traits); the guard name is reserved and unused",
            "baseline_off_cmd": "cd /repo && cargo test --workspace --no-fail-fast --offline",
            "source_commits": [],
            "add_only": True,
        },
        "engines": [
            {"name": "primmon", "path": "harness/primmon", "serves_properties": ["C10", "C11", "C20"], "kind_free_text": "runtime monitors over asn1rs's primitive layers with reference models (R-prim, R-bits, R-der); checked/wrapping builds and Miri"},
            {"name": "frontmon", "path": "harness/frontmon", "serves_properties": ["C07", "C08", "C12", "C13", "C14", "C15", "C16"], "kind_free_text": "runtime monitors over the ASN.1 front end (tokenizer, parser, resolver, model conversion, generators) with generated modules, layouts and fault injection"},
            {"name": "zoo", "path": "harness/zoogen + harness/zoorun-template", "serves_properties": ["C01", "C02", "C03", "C04", "C05", "C06", "C09", "C16", "C17", "C18", "C19"], "kind_free_text": "generated ASN.1 programs compiled by rustc against /repo, run under Injector/Extractor/SpyBits/allocator/panic-journal monitors with the R-PER reference"},
        ],
        "checks": checks,
        "notes": "All checks: exit 0 = held on what was explored, 1 = VIOLATION line(s), 2 = INCONCLUSIVE (never folded into the others). VERIF_SEED selects the random supplement; enumerated parts do not depend on it. known_findings.json lists recorded findings (suppressing exact signatures only) and fixed entries (suppressing nothing).",
        "not_applicable": na,
    }
    with open(os.path.join(VERIF, "MANIFEST.json"), "w") as f:
        json.dump(manifest, f, indent=1)
    print("MANIFEST.json: %d checks, %d not claimed" % (len(checks), len(na)))

if __name__ == "__main__":
    main()
