#!/bin/sh
# Run once in /verif after a fresh restore, offline: builds the framework from files on disk only.
set -e
cd "$(dirname "$0")/.."
export CARGO_NET_OFFLINE=true
mkdir -p work/out evidence
cd harness
cargo build --offline --profile checked --target-dir ../work/target-checked -p primmon -p frontmon -p zoogen 2>&1 | tail -3
cargo build --offline --profile wrapping --target-dir ../work/target-wrapping -p primmon 2>&1 | tail -3
echo "setup done"
