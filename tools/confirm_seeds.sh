#!/bin/bash
# Confirms every seeded change in a scratch worktree of /repo's HEAD (never in /repo itself):
#   demo passes on the unchanged tree, the patch applies and builds, the demo fails with it,
#   the repository's own suite still passes with it (only the 3 known walker failures).
# usage: confirm_seeds.sh [seed ...]   -> writes /verif/seeded/<seed>/confirm.json
set -u
WT=${SEEDWT:-/tmp/seedwt}   # SEEDWT=<dir>: use another scratch worktree (several confirmations in parallel)
L=/tmp/seedlog.$(basename $WT); export L
if [ ! -d $WT ]; then git -C /repo worktree add -q --detach $WT HEAD || exit 3; fi
git -C $WT checkout -q --detach $(git -C /repo rev-parse HEAD)
SEEDS="$@"
[ -z "$SEEDS" ] && SEEDS=$(ls /verif/seeded | grep -E '^C[0-9]+[ab]$')
for S in $SEEDS; do
  D=/verif/seeded/$S
  FLAGS=$(python3 -c "import json;print(json.load(open('$D/meta.json')).get('cargo_flags') or '')")
  cd $WT; git checkout -q -- . ; rm -f tests/seeded_demo.rs
  cp $D/demo.rs tests/seeded_demo.rs
  timeout 1500 cargo test --offline $FLAGS --test seeded_demo > $L.base.log 2>&1; BASE=$?
  APPLY=0; git apply $D/patch.diff 2>$L.apply.log || APPLY=1
  WITH=-1; SUITE="-"; BUILD=-1
  if [ $APPLY = 0 ]; then
    timeout 1500 cargo build --workspace --offline $FLAGS > $L.build.log 2>&1; BUILD=$?
    timeout 1500 cargo test --offline $FLAGS --test seeded_demo > $L.with.log 2>&1; WITH=$?
    rm -f tests/seeded_demo.rs
    timeout 3000 cargo test --workspace --no-fail-fast --offline $FLAGS > $L.suite.log 2>&1
    SUITE=$(python3 - <<'PY'
import re
import os
t=open(os.environ['L']+'.suite.log').read()
p=sum(int(m.group(1)) for m in re.finditer(r'test result: \w+\. (\d+) passed', t))
f=sum(int(m.group(1)) for m in re.finditer(r'test result: \w+\. \d+ passed; (\d+) failed', t))
names=sorted(set(re.findall(r'^test (\S+) \.\.\. FAILED', t, re.M)))
extra=[n for n in names if not n.startswith('generate::walker::tests::')]
print('passed=%d failed=%d extra_failures=%s compile_error=%s' % (p,f,extra, 'error: could not compile' in t))
PY
)
  fi
  git checkout -q -- . ; rm -f tests/seeded_demo.rs
  python3 - "$S" "$BASE" "$APPLY" "$BUILD" "$WITH" "$SUITE" "$FLAGS" <<'PY'
import json,sys,subprocess,os
s,base,apply_,build,with_,suite,flags=sys.argv[1:8]
head=subprocess.run(['git','-C','/repo','rev-parse','--short','HEAD'],capture_output=True,text=True).stdout.strip()
def tail(p):
    try: return open(p).read()[-600:]
    except Exception: return ''
r={"seed":s,"repo_head":head,"cargo_flags":flags,
   "demo_on_unchanged_tree":"pass" if base=="0" else "FAIL(rc=%s)"%base,
   "patch_applies":apply_=="0","builds_with_patch":build=="0",
   "demo_with_patch":"fail" if with_ not in ("0","-1") else ("PASS" if with_=="0" else "not run"),
   "suite_with_patch":suite}
ok=(base=="0" and apply_=="0" and build=="0" and with_ not in ("0","-1") and "extra_failures=[]" in suite and "compile_error=False" in suite and "failed=3" in suite)
r["confirmed"]=ok
if base!="0": r["base_log_tail"]=tail(os.environ['L']+'.base.log')
if apply_!="0": r["apply_log"]=tail(os.environ['L']+'.apply.log')
json.dump(r,open('/verif/seeded/%s/confirm.json'%s,'w'),indent=1)
print(s, "CONFIRMED" if ok else "NOT-CONFIRMED", json.dumps({k:v for k,v in r.items() if k not in('base_log_tail','apply_log')}))
PY
done
