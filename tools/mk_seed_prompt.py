#!/usr/bin/env python3
"""Writes the prompt given to an independent sub-agent that seeds a property-breaking change.
Only the property record is handed over (nothing else from /verif)."""
import json, sys
pid = sys.argv[1]
wt = sys.argv[2]
rec = None
for l in open('/verif/properties.jsonl'):
    p = json.loads(l)
    if p['id'] == pid:
        rec = p
assert rec
print(f"""You are helping to evaluate a verification framework by *seeding a defect*. This is an authorized
robustness exercise on a private scratch copy of an open-source Rust project (kellerkindt/asn1rs, an ASN.1 compiler
with a UPER/protobuf/DER runtime). You work ONLY inside the git worktree {wt} (a scratch worktree of the repository).
Do NOT read or touch /verif or /repo or any other directory outside {wt}; the whole point is that your work is
independent of the existing checks. There is no network: always pass --offline to cargo.

The property (one record, JSON):

{json.dumps(rec, indent=1)}

Your task: produce TWO independent, realistic changes (call them "a" and "b") to the library source code in
{wt} (src/, asn1rs-model/src/, asn1rs-macros/src/ - not tests) such that each change, on its own:
  1. still compiles (cargo build --workspace --offline, plus --features protobuf if you touch protobuf code);
  2. still passes the project's existing test suite unchanged:
       cd {wt} && cargo test --workspace --offline 2>&1 | tail -40
     (three tests in asn1rs-model `generate::walker::tests::*` fail on the untouched tree already - ignore exactly those;
      if you touch protobuf code also run: cargo test --offline --features protobuf);
  3. BREAKS the property above - but only in a way that needs something specific to manifest: an unusual input,
     a particular boundary value, a particular shape of schema, a multi-step sequence of operations, a specific build
     configuration, or two cooperating edits that each look fine alone. NOT something any ordinary use or the existing
     tests would expose at once. Think of the kind of bug a maintainer might really introduce in a refactoring or
     "optimisation" (off-by-one at a threshold such as 63/64, 127/128, 16383/16384, 65535/65536; a swapped or dropped
     branch for a rare combination; a state variable not restored on one path; a check moved after the side effect;
     sorting/ordering subtly changed; an error path that now panics or silently succeeds; ...).
  The two changes should be in different places / of different nature.

For each change X in (a, b) deliver, in the directory {wt}/SEEDED/X/ :
  - patch.diff : output of `git diff` for the library change only (must apply with `git apply` onto the untouched worktree HEAD);
  - demo.rs    : a self-contained Rust integration test file (it will be copied to {wt}/tests/seeded_demo.rs and run with
                 `cargo test --offline --test seeded_demo` [add in meta.json any extra cargo flags such as --features protobuf])
                 that PASSES on the untouched tree and FAILS with the change applied. It may use asn1rs's public API and the
                 `asn_to_rust!` macro like the existing tests in {wt}/tests do (look at them for idioms).
  - meta.json  : {{"property": "{pid}", "variant": "X", "summary": "<what the change does>", "needs": "<what specific input/sequence/configuration is needed for it to manifest>", "files": ["<changed files>"], "cargo_flags": "<extra flags or empty>", "ran": ["<commands you ran and their outcome>"]}}

Work method: read the relevant code (the anchors in the record tell you where), design the change, apply it, run the
existing test suite, write and run the demo with the change (must fail) and, after `git stash`/`git checkout -- <files>`
(must pass). Leave the worktree source files UNCHANGED at the end (all changes reverted; only the SEEDED/ directory and build
output remain). If one of the two changes cannot be made to satisfy all conditions, deliver just one and say so.
Be economical: builds take a few minutes; use `cargo test --offline --test <name>` for quick iterations and run the full
suite once per change. Final answer: a short summary of both changes (what, where, what is needed to manifest) and the outcome of your runs.""")
