#!/bin/sh
# usage: try_seed.sh <seedid> <property> [tier]   -- apply a seeded change to /repo, run the check, undo
set -u
S=$1; P=$2; T=${3:-quick}
git -C /repo apply /verif/seeded/$S/patch.diff || { echo "APPLY FAILED $S"; exit 3; }
/verif/check $P --tier $T > /verif/work/out/seed-$S-$P.log 2>&1
rc=$?
git -C /repo checkout -- .
echo "seed=$S property=$P tier=$T exit=$rc"
grep -E "^(VIOLATION|INCONCLUSIVE|RESULT)" /verif/work/out/seed-$S-$P.log | cut -c1-260 | head -8
