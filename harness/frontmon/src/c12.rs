//! C12: value references and imports resolve exactly like the literals they name.
use crate::common::*;
use asn1rs::model::asn::{Asn, MultiModuleResolver};
use asn1rs::model::parse::Tokenizer;
use asn1rs::model::resolve::{Error as ResolveError, Resolved};
use asn1rs::model::Model;
use monitors::journal::guarded;
use monitors::report::Report;
use serde_json::json;
use vgen::gen::GenCfg;
use vgen::print::print_module;
use vgen::rng::{hash_str, Rng};
use vgen::schema::*;

#[derive(Clone, Copy, PartialEq, Eq, Debug)]
enum Place {
    SameBefore,
    SameAfter,
    Sibling,
}

struct Refify<'r> {
    rng: &'r mut Rng,
    counter: usize,
    prob: u64,
    /// (value definition, placement)
    new_values: Vec<(ValueDef, Place)>,
    replaced: Vec<&'static str>,
}

impl<'r> Refify<'r> {
    fn fresh(&mut self, what: &str) -> String {
        self.counter += 1;
        format!("{}-ref{}", what, self.counter)
    }
    fn place(&mut self) -> Place {
        *self.rng.pick(&[Place::SameBefore, Place::SameAfter, Place::Sibling, Place::Sibling])
    }
    fn bound(&mut self, b: &mut Bound, role: &'static str) {
        if let Bound::Lit(v) = b {
            if self.rng.below(16) < self.prob {
                let name = self.fresh(role);
                let place = self.place();
                self.new_values.push((ValueDef { name: name.clone(), ty: Type::int_unconstrained(), lit: Lit::Int(*v) }, place));
                *b = Bound::Ref(name);
                self.replaced.push(role);
            }
        }
    }
    fn size(&mut self, s: &mut Size) {
        match s {
            Size::None => {}
            Size::Fixed(n, _) => self.bound(n, "size-fixed"),
            Size::Range(a, b, _) => {
                self.bound(a, "size-lower");
                self.bound(b, "size-upper");
            }
        }
    }
    fn comps(&mut self, c: &mut Comps) {
        let all: Vec<&mut Comp> = c.root.iter_mut().chain(c.ext.iter_mut().flatten()).collect();
        for comp in all {
            self.ty(&mut comp.ty);
            if let Presence::Default(DefaultVal::Lit(l)) = &comp.presence {
                if !matches!(l, Lit::EnumItem(_)) && self.rng.below(16) < self.prob {
                    let vt = match &comp.ty {
                        Type::Integer { .. } => Type::int_unconstrained(),
                        Type::Boolean => Type::Boolean,
                        Type::BitString { .. } => Type::BitString { size: Size::None, named: vec![] },
                        Type::OctetString { .. } => Type::OctetString { size: Size::None },
                        Type::CharString { cs, .. } => Type::CharString { cs: *cs, size: Size::None },
                        _ => continue,
                    };
                    let name = self.fresh("default");
                    let place = self.place();
                    self.new_values.push((ValueDef { name: name.clone(), ty: vt, lit: l.clone() }, place));
                    comp.presence = Presence::Default(DefaultVal::Ref(name));
                    self.replaced.push("default");
                }
            }
        }
    }
    fn ty(&mut self, t: &mut Type) {
        match t {
            Type::Integer { c: Some(c), .. } => {
                self.bound(&mut c.lo, "range-lower");
                self.bound(&mut c.hi, "range-upper");
            }
            Type::BitString { size, .. } | Type::OctetString { size } | Type::CharString { size, .. } => self.size(size),
            Type::Sequence(c) | Type::Set(c) => self.comps(c),
            Type::SequenceOf { elem, size } | Type::SetOf { elem, size } => {
                self.size(size);
                self.ty(elem);
            }
            Type::Choice { root, ext } => {
                for a in root.iter_mut().chain(ext.iter_mut().flatten()) {
                    self.ty(&mut a.ty);
                }
            }
            _ => {}
        }
    }
}

fn parse(text: &str) -> Result<Model<Asn<asn1rs::model::resolve::Unresolved>>, String> {
    match guarded(|| Model::try_from(Tokenizer.parse(text))) {
        Ok(Ok(m)) => Ok(m),
        Ok(Err(e)) => Err(format!("parse error: {}", e)),
        Err(p) => Err(p.signature()),
    }
}

fn resolve_all(texts: &[String]) -> Result<Result<Vec<Model<Asn<Resolved>>>, ResolveError>, String> {
    let mut r = MultiModuleResolver::default();
    for t in texts {
        r.push(parse(t)?);
    }
    guarded(|| r.try_resolve_all()).map_err(|p| p.signature())
}

fn oid_of(seed: u64) -> Vec<OidComp> {
    vec![OidComp::Name("iso".into()), OidComp::NameNum("standard".into(), 0), OidComp::Num(1000 + seed % 50), OidComp::NameNum("m".into(), seed % 7)]
}

pub fn check_one(rep: &mut Report, idx: u64, rng: &mut Rng, cfg: &GenCfg, sample: bool) {
    let a = random_module(rng, cfg, idx);
    if !a.values.is_empty() {
        return;
    }
    // literal variant
    let text_a = print_module(&a);
    let base = match resolve_all(&[text_a.clone()]) {
        Ok(Ok(v)) => v.into_iter().next().unwrap(),
        Ok(Err(_)) | Err(_) => {
            rep.hist("outcomes", "literal-variant-rejected");
            return;
        }
    };
    // referencing variant
    let mut a2 = a.clone();
    let mut rf = Refify { rng, counter: 0, prob: 8, new_values: Vec::new(), replaced: Vec::new() };
    for d in a2.defs.iter_mut() {
        rf.ty(&mut d.ty);
    }
    let new_values = std::mem::take(&mut rf.new_values);
    let replaced = std::mem::take(&mut rf.replaced);
    if new_values.is_empty() {
        rep.hist("outcomes", "nothing-replaced");
        return;
    }
    let rng = rf.rng;
    // the sibling module and how it is imported
    let sib_name = format!("Sib{}", idx % 1000);
    let sib_has_oid = rng.bool();
    let sib_oid = oid_of(idx);
    let import_form = rng.below(4); // 0: by name only, 1: name + matching oid, 2: name + differing oid, 3: name + oid while sibling has none
    let mut sib = Module::new(&sib_name);
    let mut before: Vec<ValueDef> = Vec::new();
    let mut imported: Vec<String> = Vec::new();
    for (v, place) in &new_values {
        match place {
            Place::SameBefore => before.push(v.clone()),
            Place::SameAfter => a2.push_value(v.clone()),
            Place::Sibling => {
                sib.push_value(v.clone());
                imported.push(v.name.clone());
            }
        }
    }
    if !before.is_empty() {
        let mut order: Vec<Item> = Vec::new();
        for v in before {
            order.push(Item::Value(a2.values.len()));
            a2.values.push(v);
        }
        order.extend(a2.order.iter().cloned());
        a2.order = order;
    }
    let use_sibling = !imported.is_empty();
    let mut texts: Vec<(String, String)> = Vec::new();
    let mut decoy_kinds: Vec<&'static str> = Vec::new();
    if use_sibling {
        let (s_oid, i_oid): (Option<Vec<OidComp>>, Option<Vec<OidComp>>) = match import_form {
            0 => (if sib_has_oid { Some(sib_oid.clone()) } else { None }, None),
            1 => (Some(sib_oid.clone()), Some(sib_oid.clone())),
            2 => (Some(sib_oid.clone()), Some(oid_of(idx + 1))),
            _ => (None, Some(sib_oid.clone())),
        };
        sib.oid = s_oid.clone();
        a2.imports.push(Import { what: imported.clone(), from: sib_name.clone(), from_oid: i_oid.clone() });
        // decoys: same value names with other literals; never imported
        let ndecoys = rng.range(0, 2);
        for k in 0..ndecoys {
            let mut d = Module::new(&format!("Decoy{}x{}", idx % 1000, k));
            let kind = *rng.pick(&["unrelated-oid", "no-oid", "oid-extends-sibling", "oid-prefix-of-sibling"]);
            d.oid = match kind {
                "unrelated-oid" => Some(oid_of(idx + 17 + k)),
                "no-oid" => None,
                "oid-extends-sibling" => {
                    let mut o = i_oid.clone().or(s_oid.clone()).unwrap_or_else(|| sib_oid.clone());
                    o.push(OidComp::Num(9));
                    Some(o)
                }
                _ => {
                    let mut o = i_oid.clone().or(s_oid.clone()).unwrap_or_else(|| sib_oid.clone());
                    o.pop();
                    Some(o)
                }
            };
            // a decoy whose OID equals the import's OID would legitimately match: only prefixes/extensions are used
            decoy_kinds.push(kind);
            for v in &sib.values {
                let lit = match &v.lit {
                    Lit::Int(i) => Lit::Int(i ^ 1),
                    Lit::Bool(b) => Lit::Bool(!b),
                    Lit::Str(s) => Lit::Str(format!("{}x", s)),
                    Lit::Hex(h) => Lit::Hex(h.iter().map(|b| !b).collect()),
                    other => other.clone(),
                };
                d.push_value(ValueDef { name: v.name.clone(), ty: v.ty.clone(), lit });
            }
            texts.push((d.name.clone(), print_module(&d)));
        }
        texts.push((sib_name.clone(), print_module(&sib)));
    }
    texts.push(("A".to_string(), print_module(&a2)));
    // every load order (up to 4 modules -> at most 24)
    let n = texts.len();
    let mut perm: Vec<usize> = (0..n).collect();
    let mut orders: Vec<Vec<usize>> = Vec::new();
    permute(&mut perm, 0, &mut orders);
    let form_name = ["by-name", "name+matching-oid", "name+differing-oid", "name+oid-sibling-has-none"][import_form as usize];
    for order in orders.iter() {
        rep.eval();
        let ordered: Vec<String> = order.iter().map(|i| texts[*i].1.clone()).collect();
        let a_pos = order.iter().position(|i| texts[*i].0 == "A").unwrap();
        let wit = || json!({"modules": ordered, "literal_variant": text_a, "import_form": form_name, "decoys": decoy_kinds, "replaced": replaced});
        match resolve_all(&ordered) {
            Err(sig) => rep.violation(&format!("c12:{}", sig), wit()),
            Ok(Err(e)) => rep.violation(&format!("c12:referencing-variant-rejected:{}", format!("{:?}", e).split('(').next().unwrap_or("")), json!({"case": wit(), "error": format!("{:?}", e)})),
            Ok(Ok(models)) => {
                let m = &models[a_pos];
                if m.definitions != base.definitions {
                    // name the first differing definition through the projection
                    let want = crate::proj::a_module(&base);
                    let got = crate::proj::a_module(m);
                    let mut diffs = Vec::new();
                    crate::proj::all_diffs(&want["defs"], &got["defs"], "", &mut diffs);
                    let (path, w, g) = diffs.into_iter().next().unwrap_or((String::from("?"), String::new(), String::new()));
                    rep.violation(
                        &format!("c12:resolves-differently-from-literal:{}:{}→{}", crate::proj::short_path(&path), w, g),
                        json!({"case": wit(), "path": path, "literal_variant_has": w, "referencing_variant_has": g}),
                    );
                }
                for r in &replaced {
                    rep.hist("replaced", r);
                }
                if use_sibling {
                    rep.hist("import-forms", form_name);
                    for d in &decoy_kinds {
                        rep.hist("decoys", d);
                    }
                } else {
                    rep.hist("import-forms", "same-module-only");
                }
                rep.distinct(hash_str(&ordered.join("\n---\n")));
            }
        }
    }
    if sample {
        rep.sample(json!({"modules": texts.iter().map(|(_, t)| t.clone()).collect::<Vec<_>>(), "load_orders": orders.len()}));
    }
    // negative variants on the canonical order
    let canonical: Vec<String> = texts.iter().map(|(_, t)| t.clone()).collect();
    negative_variants(rep, rng, &a2, &texts, &canonical, use_sibling, &new_values);
}

fn permute(p: &mut Vec<usize>, k: usize, out: &mut Vec<Vec<usize>>) {
    if out.len() >= 24 {
        return;
    }
    if k == p.len() {
        out.push(p.clone());
        return;
    }
    for i in k..p.len() {
        p.swap(k, i);
        permute(p, k + 1, out);
        p.swap(k, i);
    }
}

fn negative_variants(rep: &mut Report, rng: &mut Rng, a2: &Module, texts: &[(String, String)], canonical: &[String], use_sibling: bool, new_values: &[(ValueDef, Place)]) {
    // 1. dangling: drop the definition of one referenced value (or the import list)
    let (victim, place) = rng.pick(new_values).clone();
    let mut broken = a2.clone();
    let mut others: Vec<String> = canonical[..canonical.len() - 1].to_vec();
    let what;
    match place {
        Place::Sibling => {
            if use_sibling && rng.bool() {
                broken.imports.retain(|i| !i.what.contains(&victim.name));
                what = "import-dropped";
            } else {
                // drop the sibling module altogether
                others.retain(|t| !t.starts_with(&format!("{} ", texts[texts.len() - 2].0)) && !t.starts_with(&format!("{}\n", texts[texts.len() - 2].0)));
                if others.len() == canonical.len() - 1 {
                    return;
                }
                what = "sibling-not-loaded";
            }
        }
        _ => {
            let pos = broken.values.iter().position(|v| v.name == victim.name);
            if let Some(pos) = pos {
                broken.values.remove(pos);
                broken.order.retain(|i| *i != Item::Value(pos));
                for i in broken.order.iter_mut() {
                    if let Item::Value(k) = i {
                        if *k > pos {
                            *k -= 1;
                        }
                    }
                }
            }
            what = "definition-dropped";
        }
    }
    let mut all = others.clone();
    all.push(print_module(&broken));
    rep.eval();
    match resolve_all(&all) {
        Err(sig) => rep.violation(&format!("c12:negative:{}:{}", what, sig), json!({"modules": all})),
        Ok(Ok(_)) => rep.violation(&format!("c12:negative:{}:resolved-although-dangling", what), json!({"modules": all, "dangling": victim.name})),
        Ok(Err(e)) => {
            let kind = format!("{:?}", e);
            let kind = kind.split('(').next().unwrap_or("").to_string();
            if kind != "FailedToResolveReference" && kind != "FailedToResolveType" {
                rep.violation(&format!("c12:negative:{}:wrong-error:{}", what, kind), json!({"modules": all}));
            }
            rep.hist("negative", &format!("{}:{}", what, kind));
            rep.distinct(hash_str(&format!("{}{}", what, all.join(""))));
        }
    }
    // 2. wrong kind: an integer bound pointing at a BOOLEAN / string value
    // (only bounds: a DEFAULT of the wrong kind is a matter of C09, the property speaks of bounds)
    if let Some((v, _)) = new_values.iter().find(|(v, _)| matches!(v.lit, Lit::Int(_)) && !v.name.starts_with("default") && a2.values.iter().any(|x| x.name == v.name)) {
        let mut wrong = a2.clone();
        for x in wrong.values.iter_mut() {
            if x.name == v.name {
                if rng.bool() {
                    x.ty = Type::Boolean;
                    x.lit = Lit::Bool(true);
                } else {
                    x.ty = Type::CharString { cs: Charset::Utf8, size: Size::None };
                    x.lit = Lit::Str("seven".into());
                }
            }
        }
        let mut all: Vec<String> = canonical[..canonical.len() - 1].to_vec();
        all.push(print_module(&wrong));
        rep.eval();
        match resolve_all(&all) {
            Err(sig) => rep.violation(&format!("c12:negative:wrong-kind:{}", sig), json!({"modules": all})),
            Ok(Ok(_)) => rep.violation("c12:negative:wrong-kind:resolved-with-a-substituted-bound", json!({"modules": all, "value": v.name})),
            Ok(Err(e)) => {
                let kind = format!("{:?}", e);
                let kind = kind.split('(').next().unwrap_or("").to_string();
                if kind != "FailedToParseLiteral" {
                    rep.violation(&format!("c12:negative:wrong-kind:wrong-error:{}", kind), json!({"modules": all}));
                }
                rep.hist("negative", &format!("wrong-kind:{}", kind));
            }
        }
    }
}

/// Several consumers of the same value names from *different* sources in one resolver: each must get the values of the
/// module it imports from (or its own), in every load order; a module that neither defines nor imports the name must fail.
pub fn check_two_consumers(rep: &mut Report, idx: u64, rng: &mut Rng) {
    rep.eval();
    let (ka, kb, kc) = (rng.range(10, 4000) as i64, rng.range(4001, 9000) as i64, rng.range(9001, 20000) as i64);
    let (na, nb) = (rng.range(2, 40) as i64, rng.range(41, 90) as i64);
    let with_oid = rng.bool();
    let oid = |k: u64| if with_oid { format!(" {{ iso standard(0) {} m({}) }}", 3000 + idx % 50, k) } else { String::new() };
    let src = |name: &str, k: i64, n: i64, o: &str| format!("{}{} DEFINITIONS AUTOMATIC TAGS ::= BEGIN\nmax-k INTEGER ::= {}\nlen-n INTEGER ::= {}\nEND\n", name, o, k, n);
    let body = |k: &str, n: &str| format!("T ::= INTEGER (0..{})\nS ::= OCTET STRING (SIZE (1..{}))\nD ::= SEQUENCE {{ d INTEGER (0..100000) DEFAULT {}, l SEQUENCE (SIZE (0..{})) OF BOOLEAN }}\n", k, n, k, n);
    let user = |name: &str, from: &str, o: &str| format!("{} DEFINITIONS AUTOMATIC TAGS ::= BEGIN\nIMPORTS max-k, len-n FROM {}{};\n{}END\n", name, from, o, body("max-k", "len-n"));
    let literal = |name: &str, k: i64, n: i64| format!("{} DEFINITIONS AUTOMATIC TAGS ::= BEGIN\n{}END\n", name, body(&k.to_string(), &n.to_string()));
    let local = format!("Local-C DEFINITIONS AUTOMATIC TAGS ::= BEGIN\nIMPORTS len-n FROM Src-A{};\nmax-k INTEGER ::= {}\n{}END\n", oid(1), kc, body("max-k", "len-n"));
    let stray = format!("Stray DEFINITIONS AUTOMATIC TAGS ::= BEGIN\nIMPORTS len-n FROM Src-B{};\nT ::= INTEGER (0..max-k)\nEND\n", oid(2));
    let texts: Vec<(String, String)> = vec![
        ("Src-A".into(), src("Src-A", ka, na, &oid(1))),
        ("Src-B".into(), src("Src-B", kb, nb, &oid(2))),
        ("User-A".into(), user("User-A", "Src-A", &oid(1))),
        ("User-B".into(), user("User-B", "Src-B", &oid(2))),
        ("Local-C".into(), local),
    ];
    let expected: Vec<(String, String)> = vec![("User-A".into(), literal("User-A", ka, na)), ("User-B".into(), literal("User-B", kb, nb)), ("Local-C".into(), literal("Local-C", kc, na))];
    let mut want = std::collections::BTreeMap::new();
    for (name, t) in &expected {
        match resolve_all(&[t.clone()]) {
            Ok(Ok(ms)) if ms.len() == 1 => {
                want.insert(name.clone(), format!("{:?}", ms[0].definitions));
            }
            other => {
                rep.inconclusive(&format!("C12 two-consumers: literal variant of {} does not resolve: {:?}", name, other.map(|r| r.map(|_| ()).map_err(|e| format!("{:?}", e)))));
                return;
            }
        }
    }
    // a sample of load orders: all rotations and some shuffles
    let mut orders: Vec<Vec<usize>> = Vec::new();
    for r in 0..texts.len() {
        orders.push((0..texts.len()).map(|i| (i + r) % texts.len()).collect());
        orders.push((0..texts.len()).rev().map(|i| (i + r) % texts.len()).collect());
    }
    for _ in 0..10 {
        let mut o: Vec<usize> = (0..texts.len()).collect();
        rng.shuffle(&mut o);
        orders.push(o);
    }
    for order in &orders {
        let set: Vec<String> = order.iter().map(|i| texts[*i].1.clone()).collect();
        let names: Vec<&str> = order.iter().map(|i| texts[*i].0.as_str()).collect();
        let wit = || json!({"load_order": names, "modules": set});
        match resolve_all(&set) {
            Err(p) => rep.violation(&format!("c12:two-consumers:{}", p), wit()),
            Ok(Err(e)) => rep.violation(&format!("c12:two-consumers:valid-set-rejected:{}", format!("{:?}", e).split('(').next().unwrap_or("")), wit()),
            Ok(Ok(ms)) => {
                for m in &ms {
                    if let Some(w) = want.get(&m.name) {
                        let got = format!("{:?}", m.definitions);
                        if &got != w {
                            rep.violation(
                                &format!("c12:two-consumers:{}:gets-the-values-of-another-source", m.name),
                                json!({"load_order": names, "modules": set, "module": m.name, "resolved": got.chars().take(600).collect::<String>(), "expected": w.chars().take(600).collect::<String>()}),
                            );
                        }
                    }
                }
                rep.distinct(hash_str(&set.join("|")));
            }
        }
        // with the stray module at a random position the whole set must be rejected
        let mut set2 = set.clone();
        let pos = rng.range(0, set2.len() as u64) as usize;
        set2.insert(pos, stray.clone());
        match resolve_all(&set2) {
            Ok(Err(_)) => rep.hist("outcomes", "two-consumers:stray-rejected"),
            Ok(Ok(_)) => rep.violation("c12:two-consumers:reference-neither-defined-nor-imported-resolves", json!({"load_order": names, "stray_at": pos, "modules": set2})),
            Err(p) => rep.violation(&format!("c12:two-consumers:{}", p), json!({"modules": set2})),
        }
    }
    rep.hist("outcomes", "two-consumers:sets");
}

pub fn run(rep: &mut Report, tier: &str, seed: u64, shard: u64, nshards: u64) {
    rep.rule = "random literal-only modules A; a random subset of range bounds, SIZE bounds and DEFAULT literals replaced by fresh value references defined in the same module (before/after use) or in a sibling module imported by name / name+matching OID / name+differing OID / name+OID while the sibling has none; decoy modules (unrelated OID, none, OID extending or prefixing the imported one) defining the same names; every load order (<= 24); MultiModuleResolver::try_resolve_all; definitions of A' must equal those of the literal variant; negative variants (definition/import dropped, sibling not loaded, bound pointing at a BOOLEAN/string) must give the documented resolve errors; every fourth case additionally a five-module set in which three consumers take the same value names from different sources (two imports from different modules, one local definition) in 20 load orders, plus a module that references a name it neither defines nor imports (must be rejected). distinct = distinct (module set, load order) resolved".into();
    let n = if tier == "quick" { 500 } else { 8000 } / nshards;
    let cfg = GenCfg { value_refs: false, max_depth: 3, ..GenCfg::front() };
    for i in 0..n.max(1) {
        let idx = shard * 1_000_000 + i;
        let mut rng = Rng::derive(seed, &["C12"], idx);
        check_one(rep, idx, &mut rng, &cfg, i == 0);
        if i % 4 == 0 {
            let mut rng2 = Rng::derive(seed, &["C12", "two-consumers"], idx);
            check_two_consumers(rep, idx, &mut rng2);
        }
    }
    let c = rep.hist.get("outcomes").and_then(|h| h.get("two-consumers:sets")).copied().unwrap_or(0);
    rep.floor.insert("two-consumers:sets".into(), c);
    for cell in ["by-name", "name+matching-oid", "name+differing-oid", "name+oid-sibling-has-none", "same-module-only"] {
        let c = rep.hist.get("import-forms").and_then(|h| h.get(cell)).copied().unwrap_or(0);
        rep.floor.insert(format!("import-form:{}", cell), c);
    }
    for cell in ["range-lower", "range-upper", "size-fixed", "size-lower", "size-upper", "default"] {
        let c = rep.hist.get("replaced").and_then(|h| h.get(cell)).copied().unwrap_or(0);
        rep.floor.insert(format!("replaced:{}", cell), c);
    }
}
