//! shared helpers of the front-end monitors
use serde_json::Value;
use vgen::gen::{Gen, GenCfg};
use vgen::rng::Rng;
use vgen::schema::*;

/// a random single module (plus decorative imports that are parsed but not used)
pub fn random_module(rng: &mut Rng, cfg: &GenCfg, idx: u64) -> Module {
    let ndefs = rng.range(1, 7) as usize;
    let name = match rng.below(5) {
        0 => format!("Mod{}", idx),
        1 => format!("Test-Mod{}", idx),
        2 => format!("Proto{}Module", idx),
        3 => format!("M{}-Defs", idx),
        _ => format!("Schema{}", idx),
    };
    let mut g = Gen::new(rng, cfg.clone());
    let mut m = g.gen_module(&name, ndefs);
    // leftover value definitions (of the last definition) were already flushed by gen_module
    if g.rng.chance(1, 4) {
        let n = g.rng.range(1, 3);
        for k in 0..n {
            let cnt = g.rng.range(1, 3) as usize;
            let what: Vec<String> = (0..cnt).map(|j| if g.rng.bool() { format!("Ext{}T{}", k, j) } else { format!("ext{}-v{}", k, j) }).collect();
            let from_oid = if g.rng.chance(1, 2) {
                Some(vec![OidComp::Name("itu-t".into()), OidComp::NameNum("identified".into(), 4), OidComp::Num(g.rng.range(0, 500))])
            } else {
                None
            };
            m.imports.push(Import { what, from: format!("Other{}", k), from_oid });
        }
    }
    m
}

pub fn count_kinds(v: &Value, hist: &mut std::collections::BTreeMap<String, u64>) -> u64 {
    let mut n = 0;
    match v {
        Value::Object(o) => {
            if let Some(Value::String(k)) = o.get("k") {
                *hist.entry(k.clone()).or_insert(0) += 1;
                n += 1;
            }
            if let Some(Value::Number(_)) = o.get("root_count") {
                *hist.entry("extension-marker".into()).or_insert(0) += 1;
            }
            if let Some(t) = o.get("tag") {
                if !t.is_null() {
                    *hist.entry("explicit-tag".into()).or_insert(0) += 1;
                }
            }
            if let Some(p) = o.get("presence") {
                match p {
                    Value::String(s) if s == "O" => *hist.entry("OPTIONAL".into()).or_insert(0) += 1,
                    Value::Object(_) => *hist.entry("DEFAULT".into()).or_insert(0) += 1,
                    _ => {}
                }
            }
            if let Some(Value::Array(a)) = o.get("named") {
                if !a.is_empty() {
                    *hist.entry("named-numbers".into()).or_insert(0) += 1;
                }
            }
            if let Some(Value::Object(s)) = o.get("size") {
                let key = if s.contains_key("fix") { "size-fixed" } else { "size-range" };
                *hist.entry(key.into()).or_insert(0) += 1;
                if s.get("ext") == Some(&Value::Bool(true)) {
                    *hist.entry("size-extensible".into()).or_insert(0) += 1;
                }
            }
            for (_, x) in o {
                n += count_kinds(x, hist);
            }
        }
        Value::Array(a) => {
            for x in a {
                n += count_kinds(x, hist);
            }
        }
        _ => {}
    }
    n
}

/// inline ASN.1 modules of the repository's own tests, extracted textually from the working tree
pub fn corpus() -> Vec<(String, String)> {
    let mut out = Vec::new();
    let dir = match std::fs::read_dir("/repo/tests") {
        Ok(d) => d,
        Err(_) => return out,
    };
    let mut files: Vec<_> = dir.flatten().map(|e| e.path()).filter(|p| p.extension().map(|e| e == "rs").unwrap_or(false)).collect();
    files.sort();
    for f in files {
        let text = match std::fs::read_to_string(&f) {
            Ok(t) => t,
            Err(_) => continue,
        };
        let mut rest = &text[..];
        let mut k = 0;
        while let Some(pos) = rest.find("asn_to_rust!(") {
            rest = &rest[pos + 13..];
            let r = rest.trim_start();
            let (open, close) = if r.starts_with("r#\"") { ("r#\"", "\"#") } else if r.starts_with("r\"") { ("r\"", "\"") } else { continue };
            let body = &r[open.len()..];
            if let Some(end) = body.find(close) {
                let module = &body[..end];
                if module.contains("BEGIN") && module.contains("END") {
                    out.push((format!("{}#{}", f.file_name().unwrap().to_string_lossy(), k), module.to_string()));
                    k += 1;
                }
                rest = &body[end..];
            }
        }
    }
    out
}
