//! C15: the Rust type chosen for an INTEGER can hold every permitted value (R-inttype).
use asn1rs::model::asn::{Asn, ComponentTypeList, Integer, Range, Type};
use asn1rs::model::generate::{Generator, RustCodeGenerator};
use asn1rs::model::resolve::Resolved;
use asn1rs::model::rust::{Rust, RustType};
use asn1rs::model::{Definition, Field, Model};
use monitors::journal::guarded;
use monitors::report::Report;
use serde_json::json;
use vgen::rng::hash_str;

/// narrowest standard integer type (R-inttype). lo None = MIN, hi None = MAX.
pub fn r_inttype(lo: Option<i64>, hi: Option<i64>, ext: bool) -> &'static str {
    let signed = match lo {
        None => true,
        Some(l) => l < 0,
    };
    if ext || lo.is_none() || hi.is_none() {
        return if signed { "i64" } else { "u64" };
    }
    let (l, h) = (lo.unwrap(), hi.unwrap());
    if !signed {
        match h as u64 {
            m if m <= u8::MAX as u64 => "u8",
            m if m <= u16::MAX as u64 => "u16",
            m if m <= u32::MAX as u64 => "u32",
            _ => "u64",
        }
    } else if l >= i8::MIN as i64 && h <= i8::MAX as i64 {
        "i8"
    } else if l >= i16::MIN as i64 && h <= i16::MAX as i64 {
        "i16"
    } else if l >= i32::MIN as i64 && h <= i32::MAX as i64 {
        "i32"
    } else {
        "i64"
    }
}

fn rust_int_name(t: &RustType) -> Option<&'static str> {
    Some(match t {
        RustType::I8(_) => "i8",
        RustType::U8(_) => "u8",
        RustType::I16(_) => "i16",
        RustType::U16(_) => "u16",
        RustType::I32(_) => "i32",
        RustType::U32(_) => "u32",
        RustType::I64(_) => "i64",
        RustType::U64(_) => "u64",
        _ => return None,
    })
}

fn type_range(name: &str) -> (i128, i128) {
    match name {
        "i8" => (i8::MIN as i128, i8::MAX as i128),
        "u8" => (0, u8::MAX as i128),
        "i16" => (i16::MIN as i128, i16::MAX as i128),
        "u16" => (0, u16::MAX as i128),
        "i32" => (i32::MIN as i128, i32::MAX as i128),
        "u32" => (0, u32::MAX as i128),
        "i64" => (i64::MIN as i128, i64::MAX as i128),
        _ => (0, u64::MAX as i128),
    }
}

fn form_class(lo: Option<i64>, hi: Option<i64>, ext: bool) -> String {
    let l = match lo {
        None => "MIN",
        Some(v) if v < 0 => "neg",
        Some(0) => "zero",
        Some(_) => "pos",
    };
    let h = match hi {
        None => "MAX",
        Some(v) if v < 0 => "neg",
        Some(i64::MAX) => "i64max",
        Some(_) => "nonneg",
    };
    format!("({}..{}{})", l, h, if ext { ",..." } else { "" })
}

#[derive(Clone, Copy)]
pub struct IntCase {
    pub lo: Option<i64>,
    pub hi: Option<i64>,
    pub ext: bool,
}

fn parse_accessor(code: &str, fn_name: &str) -> Option<(String, i128)> {
    // pub const fn value_min() -> u8 {\n        0\n    }
    let pat = format!("fn {}() -> ", fn_name);
    let pos = code.find(&pat)?;
    let rest = &code[pos + pat.len()..];
    let brace = rest.find('{')?;
    let ty = rest[..brace].trim().to_string();
    let end = rest.find('}')?;
    let body: String = rest[brace + 1..end].chars().filter(|c| !c.is_whitespace() && *c != '_').collect();
    body.parse::<i128>().ok().map(|v| (ty, v))
}

pub fn check_batch(rep: &mut Report, cases: &[IntCase], via_text: bool) {
    // build one model holding every case as a tuple type and as a field of one SEQUENCE
    let int_type = |c: &IntCase| Type::<Resolved>::Integer(Integer { range: Range(c.lo, c.hi, c.ext), constants: Vec::new() });
    let model: Result<Model<Asn<Resolved>>, String> = if via_text {
        let mut text = String::from("Ints DEFINITIONS AUTOMATIC TAGS ::= BEGIN\n");
        let b = |v: Option<i64>, min: bool| match v {
            Some(v) => v.to_string(),
            None => if min { "MIN".to_string() } else { "MAX".to_string() },
        };
        for (i, c) in cases.iter().enumerate() {
            text.push_str(&format!("T{} ::= INTEGER ({}..{}{})\n", i, b(c.lo, true), b(c.hi, false), if c.ext { ",..." } else { "" }));
        }
        text.push_str("S ::= SEQUENCE {\n");
        for (i, c) in cases.iter().enumerate() {
            text.push_str(&format!("  f{} INTEGER ({}..{}{}){}\n", i, b(c.lo, true), b(c.hi, false), if c.ext { ",..." } else { "" }, if i + 1 < cases.len() { "," } else { "" }));
        }
        text.push_str("}\nEND\n");
        match guarded(|| crate::proj::parse_and_resolve(&text)) {
            Ok(Ok(m)) => Ok(m),
            Ok(Err(e)) => Err(format!("{:?}", e)),
            Err(p) => Err(p.signature()),
        }
    } else {
        let mut m = Model::<Asn<Resolved>>::default();
        m.name = "Ints".into();
        for (i, c) in cases.iter().enumerate() {
            m.definitions.push(Definition(format!("T{}", i), int_type(c).untagged()));
        }
        m.definitions.push(Definition(
            "S".into(),
            Type::Sequence(ComponentTypeList {
                fields: cases.iter().enumerate().map(|(i, c)| Field { name: format!("f{}", i), role: int_type(c).untagged() }).collect(),
                extension_after: None,
            })
            .untagged(),
        ));
        Ok(m)
    };
    let model = match model {
        Ok(m) => m,
        Err(e) => {
            rep.violation(&format!("c15:front-end-rejected:{}", monitors::journal::normalise_msg(&e).chars().take(80).collect::<String>()), json!({"cases": cases.len(), "error": e}));
            return;
        }
    };
    let rust = match guarded(|| model.to_rust()) {
        Ok(r) => r,
        Err(p) => {
            // find the culprit one by one
            for c in cases {
                let mut m = Model::<Asn<Resolved>>::default();
                m.name = "Ints".into();
                m.definitions.push(Definition("T0".into(), int_type(c).untagged()));
                if let Err(p) = guarded(|| m.to_rust()) {
                    rep.violation(&format!("c15:to_rust:{}:{}", form_class(c.lo, c.hi, c.ext), p.signature()), json!({"lo": c.lo, "hi": c.hi, "ext": c.ext}));
                }
            }
            let _ = p;
            return;
        }
    };
    let code = guarded(|| {
        let mut g = RustCodeGenerator::default();
        g.add_model(rust.clone());
        g.to_string().map(|v| v.into_iter().map(|(_, c)| c).collect::<String>()).unwrap_or_default()
    })
    .unwrap_or_default();
    // split the generated code per definition so accessor lookups are local
    let mut struct_fields: Vec<(String, RustType)> = Vec::new();
    for Definition(name, r) in &rust.definitions {
        if name == "S" {
            if let Rust::Struct { fields, .. } = r {
                struct_fields = fields.iter().map(|f| (f.name().to_string(), f.r#type().clone())).collect();
            }
        }
    }
    for (i, c) in cases.iter().enumerate() {
        rep.eval();
        let want = r_inttype(c.lo, c.hi, c.ext);
        let class = form_class(c.lo, c.hi, c.ext);
        rep.hist("forms", &class);
        let wit = |where_: &str, got: &str| json!({"lo": c.lo, "hi": c.hi, "ext": c.ext, "where": where_, "want": want, "got": got, "via_text": via_text});
        let tuple = rust.definitions.iter().find(|d| d.0 == format!("T{}", i)).and_then(|d| match &d.1 {
            Rust::TupleStruct { r#type, .. } => Some(r#type.clone()),
            _ => None,
        });
        let field = struct_fields.iter().find(|(n, _)| n == &format!("f{}", i)).map(|(_, t)| t.clone());
        for (where_, t) in [("tuple", tuple), ("field", field)] {
            let t = match t {
                Some(t) => t,
                None => {
                    rep.violation(&format!("c15:{}:missing-in-rust-model", where_), wit(where_, "-"));
                    continue;
                }
            };
            let got = match rust_int_name(&t) {
                Some(g) => g,
                None => {
                    rep.violation(&format!("c15:{}:not-an-integer-type:{}", where_, class), wit(where_, &format!("{:?}", t)));
                    continue;
                }
            };
            if got != want {
                // classify: cannot hold vs not narrowest
                let (tl, th) = type_range(got);
                let need_lo = c.lo.map(|v| v as i128).unwrap_or(i64::MIN as i128);
                let need_hi = c.hi.map(|v| v as i128).unwrap_or(i64::MAX as i128);
                let holds = tl <= need_lo && th >= need_hi;
                let kind = if !holds { "cannot-hold-permitted-values" } else { "not-narrowest-or-wrong-signedness" };
                rep.violation(&format!("c15:{}:{}:{}:want={}:got={}", where_, kind, class, want, got), wit(where_, got));
            }
            // accessors
            let prefix = if where_ == "tuple" { "value".to_string() } else { format!("f{}", i) };
            let scope = if where_ == "tuple" {
                // the impl block of T<i>
                code.find(&format!("impl T{} {{", i)).map(|p| &code[p..(p + 600).min(code.len())])
            } else {
                code.find("impl S {").map(|p| &code[p..])
            };
            if let Some(scope) = scope {
                // open ends: the accessor must not cut off permitted values (MAX => at least i64::MAX, MIN => at most 0 / ub)
                if c.hi.is_none() {
                    if let Some((_, v)) = parse_accessor(scope, &format!("{}_max", prefix)) {
                        if v < i64::MAX as i128 {
                            rep.violation(&format!("c15:accessor:max:{}:open-end-cut-off", class), json!({"case": wit(where_, got), "accessor_returns": v.to_string()}));
                        }
                        rep.hist("accessors", "checked-open-end");
                    }
                }
                if c.lo.is_none() {
                    if let Some((_, v)) = parse_accessor(scope, &format!("{}_min", prefix)) {
                        if v > c.hi.map(|h| h as i128).unwrap_or(0).min(0) {
                            rep.violation(&format!("c15:accessor:min:{}:open-end-cut-off", class), json!({"case": wit(where_, got), "accessor_returns": v.to_string()}));
                        }
                        rep.hist("accessors", "checked-open-end");
                    }
                }
                for (suffix, declared) in [("min", c.lo), ("max", c.hi)] {
                    if let Some(d) = declared {
                        match parse_accessor(scope, &format!("{}_{}", prefix, suffix)) {
                            Some((ty, v)) => {
                                if v != d as i128 {
                                    rep.violation(&format!("c15:accessor:{}:{}:returns-other-than-declared-bound", suffix, class), json!({"case": wit(where_, got), "accessor_returns": v.to_string(), "declared": d}));
                                }
                                if ty != got {
                                    rep.violation(&format!("c15:accessor:{}:return-type-differs-from-field-type", suffix), json!({"case": wit(where_, got), "accessor_type": ty}));
                                }
                                rep.hist("accessors", "checked");
                            }
                            None => {
                                rep.hist("accessors", "absent");
                                rep.violation(&format!("c15:accessor:{}:{}:missing", suffix, class), wit(where_, got));
                            }
                        }
                    }
                }
            }
        }
        rep.distinct(hash_str(&format!("{:?}{:?}{}{}", c.lo, c.hi, c.ext, via_text)));
    }
}

pub fn bound_set() -> Vec<i64> {
    let mut v: Vec<i128> = (-20..=20).collect();
    for k in 0..=63u32 {
        let p = 1i128 << k;
        for d in [-1i128, 0, 1] {
            v.push(p + d);
            v.push(-p + d);
        }
    }
    v.retain(|x| *x >= i64::MIN as i128 && *x <= i64::MAX as i128);
    v.sort();
    v.dedup();
    v.into_iter().map(|x| x as i64).collect()
}

pub fn run(rep: &mut Report, tier: &str, _seed: u64, shard: u64, nshards: u64) {
    rep.rule = "exhaustive, seed-independent: B = {0, +-1, +-2^k, +-2^k+-1 : k <= 63} u [-20,20] clipped to i64; all ordered pairs lo <= hi, each bound also as MIN / MAX, each plain and extensible, as tuple type and as SEQUENCE field fed to Model::to_rust(); a slice additionally through ASN.1 text; oracle R-inttype (can hold [lo,hi], signedness, narrowest, MIN/MAX => widest, extensible => 64 bit) and the generated *_min()/*_max() accessor text for numeric bounds. distinct = distinct (lo, hi, ext, path) constraints".into();
    let b = bound_set();
    let mut cases: Vec<IntCase> = Vec::new();
    let stride = if tier == "quick" { 3 } else { 1 };
    for (i, &lo) in b.iter().enumerate() {
        for (j, &hi) in b.iter().enumerate() {
            if lo <= hi && (tier != "quick" || (i + j) % stride == 0 || lo == hi || j == i + 1) {
                for ext in [false, true] {
                    cases.push(IntCase { lo: Some(lo), hi: Some(hi), ext });
                }
            }
        }
        for ext in [false, true] {
            cases.push(IntCase { lo: None, hi: Some(lo), ext });
            cases.push(IntCase { lo: Some(lo), hi: None, ext });
        }
    }
    for ext in [false, true] {
        cases.push(IntCase { lo: None, hi: None, ext });
    }
    let chunks: Vec<&[IntCase]> = cases.chunks(200).collect();
    for (k, chunk) in chunks.iter().enumerate() {
        if k as u64 % nshards != shard {
            continue;
        }
        check_batch(rep, chunk, false);
        if k % 20 == 0 {
            check_batch(rep, chunk, true);
        }
    }
    rep.exhaustive = tier != "quick";
    rep.notes.push(format!("|B| = {}, constraints enumerated = {}", b.len(), cases.len()));
    rep.sample(json!({"lo": "MIN", "hi": 5, "ext": false, "want": r_inttype(None, Some(5), false)}));
    rep.sample(json!({"lo": -129, "hi": 127, "ext": false, "want": r_inttype(Some(-129), Some(127), false)}));
}
