//! C08 (text level): generated Rust code, read back through the attribute parser, yields the same Rust model.
use crate::common::*;
use asn1rs::model::generate::RustCodeGenerator;
use asn1rs::model::asn::TagProperty;
use asn1rs::model::rust::Rust;
use asn1rs::model::{Definition, Model};
use codegen::Scope;
use monitors::journal::guarded;
use monitors::report::Report;
use proc_macro2::TokenStream;
use serde_json::json;
use vgen::gen::GenCfg;
use vgen::print::print_module;
use vgen::rng::{hash_str, Rng};

fn generate(definition: &Definition<Rust>) -> String {
    let mut scope = Scope::new();
    RustCodeGenerator::default().add_definition(&mut scope, definition);
    scope.to_string()
}

fn extract_attribute(attr: &str) -> Option<TokenStream> {
    const PREFIX: &str = "#[asn(";
    const SUFFIX: &str = ")]";
    if !attr.starts_with(PREFIX) || !attr.ends_with(SUFFIX) {
        return None;
    }
    attr[PREFIX.len()..attr.len() - SUFFIX.len()].parse().ok()
}

fn words(s: &str) -> Vec<String> {
    let mut out = Vec::new();
    let mut cur = String::new();
    for c in s.chars() {
        if c.is_alphanumeric() || c == '_' || c == '-' {
            cur.push(c);
        } else {
            if !cur.is_empty() {
                out.push(std::mem::take(&mut cur));
            }
            if !c.is_whitespace() && c != ',' {
                out.push(c.to_string());
            }
        }
    }
    if !cur.is_empty() {
        out.push(cur);
    }
    out
}

/// signature of the first difference of two Debug renderings: the two nearest preceding constructor names + the differing words
fn debug_diff(a: &str, b: &str) -> String {
    let (wa, wb) = (words(a), words(b));
    let n = wa.iter().zip(wb.iter()).position(|(x, y)| x != y).unwrap_or(wa.len().min(wb.len()));
    // context = the two nearest constructor names of the Rust model (a fixed vocabulary: identifiers of the module
    // under test - variant and type names - would make the signature depend on the random module)
    const VOCAB: &[&str] = &[
        "Definition", "Struct", "Enum", "DataEnum", "TupleStruct", "Field", "DataVariant", "Enumeration", "PlainEnum", "Option", "Default", "Vec", "Complex", "Range", "Some", "None",
        "Bool", "U8", "I8", "U16", "I16", "U32", "I32", "U64", "I64", "String", "VecU8", "BitVec", "Null", "Size", "Any", "Fix", "Keep", "Sort", "Universal", "Application", "ContextSpecific",
        "Private", "Utf8", "Numeric", "Printable", "Ia5", "Visible", "Integer", "Boolean", "OctetString", "EnumeratedVariant",
    ];
    const INT_TYPES: &[&str] = &["U8", "I8", "U16", "I16", "U32", "I32", "U64", "I64"];
    if let (Some(x), Some(y)) = (wa.get(n), wb.get(n)) {
        if INT_TYPES.contains(&x.as_str()) && INT_TYPES.contains(&y.as_str()) {
            // the position (field, optional field, variant, element ...) does not matter for a changed integer type
            return format!("integer-type:{}→{}", x, y);
        }
    }
    let ctx: Vec<&String> = wa[..n].iter().rev().filter(|w| VOCAB.contains(&w.as_str())).take(2).collect();
    let ctx: Vec<String> = ctx.into_iter().rev().cloned().collect();
    let norm = |w: Option<&String>| -> String {
        match w {
            None => "<end>".to_string(),
            Some(w) if w.chars().all(|c| c.is_ascii_digit() || c == '-') => "N".to_string(),
            Some(w) => w.chars().take(24).collect(),
        }
    };
    format!("{}:{}→{}", ctx.join("."), norm(wa.get(n)), norm(wb.get(n)))
}

fn rust_kind(r: &Rust) -> &'static str {
    match r {
        Rust::Struct { .. } => "struct",
        Rust::Enum(_) => "enum",
        Rust::DataEnum(_) => "data-enum",
        Rust::TupleStruct { .. } => "tuple-struct",
    }
}

pub fn check_module(rep: &mut Report, text: &str, origin: &str, sample: bool) {
    let asn = match guarded(|| crate::proj::parse_and_resolve(text)) {
        Ok(Ok(m)) => m,
        _ => {
            rep.hist("outcomes", "front-end-rejected");
            return;
        }
    };
    let rust_model = match guarded(|| asn.to_rust()) {
        Ok(m) => m,
        Err(p) => {
            rep.violation(&format!("c08:to_rust:{}", p.signature()), json!({"text": text}));
            return;
        }
    };
    for definition in rust_model.definitions.iter() {
        rep.eval();
        let kind = rust_kind(&definition.1);
        let wit = |extra: serde_json::Value| json!({"origin": origin, "asn1": text, "definition": definition.0, "detail": extra});
        let code = match guarded(|| generate(definition)) {
            Ok(c) => c,
            Err(p) => {
                rep.violation(&format!("c08:generate:{}:{}", kind, p.signature()), wit(json!(null)));
                continue;
            }
        };
        let mut lines = code.lines().map(str::trim).filter(|s| !s.is_empty());
        let first = lines.next().unwrap_or("");
        let attribute = match extract_attribute(first) {
            Some(a) => a,
            None => {
                rep.violation(&format!("c08:no-asn-attribute-on-first-line:{}", kind), wit(json!({"code": code.chars().take(600).collect::<String>()})));
                continue;
            }
        };
        let body_text = lines.collect::<Vec<_>>().join("\n");
        let body: TokenStream = match body_text.parse() {
            Ok(b) => b,
            Err(e) => {
                rep.violation(&format!("c08:generated-code-does-not-tokenize:{}", kind), wit(json!({"error": e.to_string(), "code": body_text.chars().take(600).collect::<String>()})));
                continue;
            }
        };
        let reparsed = match guarded(|| asn1rs::model::proc_macro::parse_asn_definition(attribute.clone(), body.clone())) {
            Err(p) => {
                rep.violation(&format!("c08:attribute-parser:{}:{}", kind, p.signature()), wit(json!({"attribute": attribute.to_string()})));
                continue;
            }
            Ok(Err(ts)) => {
                let msg = ts.to_string();
                // category: the message text up to the first ':' inside the compile_error string
                let inner = msg.split('"').nth(1).unwrap_or(&msg);
                let cat: String = inner.split(|c| c == ':' || c == '(' || c == '[').next().unwrap_or("").trim().chars().take(60).collect();
                rep.violation(
                    &format!("c08:attribute-parser-rejects-generated-code:{}:{}", kind, monitors::journal::normalise_msg(&cat)),
                    wit(json!({"attribute": attribute.to_string(), "error": msg.chars().take(400).collect::<String>()})),
                );
                continue;
            }
            Ok(Ok((None, _))) => {
                rep.violation(&format!("c08:attribute-parser-yields-no-definition:{}", kind), wit(json!({"attribute": attribute.to_string()})));
                continue;
            }
            Ok(Ok((Some(d), _))) => d,
        };
        let expand_input = reparsed.clone();
        let re_model = Model { name: rust_model.name.clone(), imports: rust_model.imports.clone(), definitions: vec![reparsed], ..Default::default() };
        match guarded(|| re_model.to_rust()) {
            Err(p) => rep.violation(&format!("c08:reparsed-to_rust:{}:{}", kind, p.signature()), wit(json!({"attribute": attribute.to_string()}))),
            Ok(m) => {
                let mut got = m.definitions;
                // the one sanctioned difference: the macro derives a default tag for an untagged CHOICE
                if let (Some(g), Rust::DataEnum(_)) = (got.first_mut(), &definition.1) {
                    if definition.1.tag().is_none() && g.1.tag().is_some() {
                        g.1.reset_tag();
                        rep.hist("outcomes", "sanctioned-choice-tag-difference");
                    }
                }
                if got.len() != 1 || &got[0] != definition {
                    let a = format!("{:?}", definition);
                    let b = got.first().map(|d| format!("{:?}", d)).unwrap_or_default();
                    rep.violation(
                        &format!("c08:reparse-differs:{}:{}", kind, debug_diff(&a, &b)),
                        wit(json!({"attribute": attribute.to_string(), "generated_from": a.chars().take(1500).collect::<String>(), "reparsed": b.chars().take(1500).collect::<String>()})),
                    );
                } else {
                    rep.hist("kinds", kind);
                    rep.distinct(hash_str(&format!("{:?}", definition)));
                }
            }
        }
        // the macro expansion itself must not panic and must produce the descriptor impls
        match guarded(|| asn1rs::model::proc_macro::expand(Some(expand_input))) {
            Err(p) => rep.violation(&format!("c08:expand:{}:{}", kind, p.signature()), wit(json!({"attribute": attribute.to_string()}))),
            Ok(ts) => {
                let text: String = ts.iter().map(|t| t.to_string()).collect();
                if !text.contains("Constraint") {
                    rep.violation(&format!("c08:expand-without-constraint-impls:{}", kind), wit(json!({"attribute": attribute.to_string()})));
                }
                rep.hist("outcomes", "expanded");
            }
        }
        if sample {
            rep.sample(json!({"definition": definition.0, "attribute": attribute.to_string(), "kind": kind}));
        }
    }
}

pub fn run(rep: &mut Report, tier: &str, seed: u64, shard: u64, nshards: u64) {
    rep.rule = "random modules + the repository's inline test modules; per definition: RustCodeGenerator::add_definition text -> split attribute/item -> proc_macro::parse_asn_definition -> to_rust() must equal (PartialEq) the definition the generator started from; proc_macro::expand() must not panic and must emit constraint impls (the compiled constants are compared with the schema by the zoo part of C08). distinct = distinct Rust definitions that survived the round trip".into();
    let n = if tier == "quick" { 1000 } else { 10_000 } / nshards;
    let cfg = GenCfg::front();
    for i in 0..n.max(1) {
        let idx = shard * 1_000_000 + i;
        let mut rng = Rng::derive(seed, &["C08"], idx);
        let m = random_module(&mut rng, &cfg, idx);
        check_module(rep, &print_module(&m), "random-module", i == 0);
    }
    if shard == 0 {
        for (name, text) in corpus() {
            check_module(rep, &text, &format!("corpus:{}", name), false);
        }
    }
    for k in ["struct", "enum", "data-enum", "tuple-struct"] {
        let c = rep.hist.get("kinds").and_then(|h| h.get(k)).copied().unwrap_or(0);
        if nshards == 1 || c > 0 {
            rep.floor.insert(format!("kind:{}", k), c);
        }
    }
}
