fn main(){}
