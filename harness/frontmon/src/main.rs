//! frontmon: monitors over the ASN.1 front end (C07 C08 C12 C13 C14 C15 C16 text level).
mod c07;
mod c08;
mod c12;
mod c13;
mod c14;
mod c15;
mod c16;
mod common;
mod proj;

use monitors::report::{Args, Report};

fn main() {
    let args = Args::parse();
    let property = args.str("property", "C07");
    let tier = args.str("tier", "quick");
    let seed = args.u64("seed", 1);
    let shard = args.u64("shard", 0);
    let nshards = args.u64("nshards", 1).max(1);
    let out = args.str("out", "/dev/stdout");
    let variant = args.str("variant", "checked");
    monitors::journal::install();
    let mut rep = Report::new(&property, &tier, seed, shard, &variant);
    match property.as_str() {
        "C07" => c07::run(&mut rep, &tier, seed, shard, nshards),
        "C08" => c08::run(&mut rep, &tier, seed, shard, nshards),
        "C12" => c12::run(&mut rep, &tier, seed, shard, nshards),
        "C13" => c13::run(&mut rep, &tier, seed, shard, nshards),
        "C14" => c14::run(&mut rep, &tier, seed, shard, nshards),
        "C15" => c15::run(&mut rep, &tier, seed, shard, nshards),
        "C16" => c16::run(&mut rep, &tier, seed, shard, nshards),
        "EXPAND" => {
            let text = std::fs::read_to_string(args.str("file", "/dev/stdin")).unwrap();
            println!("{}", c16::expansion_of(&text, &args.str("def", "Subject")).unwrap_or_else(|e| e));
            return;
        }
        "PARSE" => {
            let text = std::fs::read_to_string(args.str("file", "/dev/stdin")).unwrap();
            println!("{:?}", asn1rs::model::parse::Tokenizer.parse(&text));
            match proj::parse_and_resolve(&text) {
                Ok(m) => println!("{}", serde_json::to_string_pretty(&proj::a_module(&m)).unwrap()),
                Err(e) => println!("ERR {:?}", e),
            }
            return;
        }
        other => {
            eprintln!("unknown property {}", other);
            std::process::exit(2);
        }
    }
    rep.write(&out);
}
