//! C16 (text level): SET canonical order and tag assignment read from the macro expansion (R-tags).
use asn1rs::model::generate::RustCodeGenerator;
use asn1rs::model::rust::Rust;
use codegen::Scope;
use monitors::journal::guarded;
use monitors::report::Report;
use proc_macro2::TokenStream;
use serde_json::json;
use vgen::print::print_module;
use vgen::resolve::{comp_tags, set_root_order};
use vgen::rng::{hash_str, Rng};
use vgen::schema::*;

/// tag numbers beyond the 6 bits / 1 octet / 2 octets an identifier octet or a packed sort key might assume
const LARGE_TAG_NUMBERS: &[u64] = &[63, 64, 65, 70, 127, 128, 130, 255, 256, 1000, 16383, 16384, 70000];

fn support_defs(m: &mut Module) {
    m.push_def(Def { name: "RefApp".into(), tag: Some(Tag { class: Class::Application, num: 7 }), ty: Type::int(0, 7) });
    m.push_def(Def { name: "RefPriv".into(), tag: Some(Tag { class: Class::Private, num: 1 }), ty: Type::Boolean });
    m.push_def(Def { name: "RefPlain".into(), tag: None, ty: Type::OctetString { size: Size::None } });
    m.push_def(Def { name: "RefSeq".into(), tag: None, ty: Type::Sequence(Comps { root: vec![Comp { name: "q".into(), tag: None, ty: Type::Boolean, presence: Presence::Mandatory }], ext: None }) });
    m.push_def(Def { name: "RefSet".into(), tag: None, ty: Type::Set(Comps { root: vec![Comp { name: "q".into(), tag: None, ty: Type::Boolean, presence: Presence::Mandatory }], ext: None }) });
    m.push_def(Def {
        name: "RefChoice".into(),
        tag: None,
        ty: Type::Choice {
            root: vec![
                Alt { name: "x".into(), tag: Some(Tag { class: Class::Private, num: 3 }), ty: Type::Boolean },
                Alt { name: "y".into(), tag: Some(Tag { class: Class::Context, num: 2 }), ty: Type::int(0, 3) },
            ],
            ext: None,
        },
    });
    m.push_def(Def {
        name: "RefChoiceExt".into(),
        tag: None,
        ty: Type::Choice {
            root: vec![Alt { name: "t".into(), tag: Some(Tag { class: Class::Application, num: 6 }), ty: Type::Boolean }],
            ext: Some(vec![Alt { name: "f".into(), tag: Some(Tag { class: Class::Application, num: 2 }), ty: Type::Null }]),
        },
    });
}

/// candidate component types with the tag they have when untagged
fn type_pool() -> Vec<(Type, &'static str)> {
    vec![
        (Type::Boolean, "BOOLEAN"),
        (Type::int(0, 255), "INTEGER"),
        (Type::BitString { size: Size::None, named: vec![] }, "BIT STRING"),
        (Type::OctetString { size: Size::None }, "OCTET STRING"),
        (Type::Null, "NULL"),
        (Type::CharString { cs: Charset::Utf8, size: Size::None }, "UTF8String"),
        (Type::CharString { cs: Charset::Ia5, size: Size::None }, "IA5String"),
        (Type::SequenceOf { elem: Box::new(Type::Boolean), size: Size::None }, "SEQUENCE OF"),
        (Type::SetOf { elem: Box::new(Type::Boolean), size: Size::None }, "SET OF"),
        (Type::Ref("RefApp".into()), "ref-tagged-application"),
        (Type::Ref("RefPriv".into()), "ref-tagged-private"),
        (Type::Ref("RefSeq".into()), "ref-sequence"),
        (Type::Ref("RefSet".into()), "ref-set"),
        (Type::Ref("RefChoice".into()), "ref-untagged-choice"),
        (Type::Ref("RefChoiceExt".into()), "ref-untagged-extensible-choice"),
    ]
}

fn permutations(n: usize) -> Vec<Vec<usize>> {
    fn rec(p: &mut Vec<usize>, k: usize, out: &mut Vec<Vec<usize>>) {
        if k == p.len() {
            out.push(p.clone());
            return;
        }
        for i in k..p.len() {
            p.swap(k, i);
            rec(p, k + 1, out);
            p.swap(k, i);
        }
    }
    let mut out = Vec::new();
    let mut p: Vec<usize> = (0..n).collect();
    rec(&mut p, 0, &mut out);
    out
}

pub fn expansion_of(text: &str, def_name: &str) -> Result<String, String> {
    let asn = crate::proj::parse_and_resolve(text).map_err(|e| format!("front end: {:?}", e))?;
    let rust = asn.to_rust();
    let definition = rust.definitions.iter().find(|d| d.0 == def_name).ok_or("definition not in rust model")?;
    let mut scope = Scope::new();
    RustCodeGenerator::default().add_definition(&mut scope, definition);
    let code = scope.to_string();
    let mut lines = code.lines().map(str::trim).filter(|s| !s.is_empty());
    let first = lines.next().unwrap_or("");
    if !first.starts_with("#[asn(") || !first.ends_with(")]") {
        return Err("no attribute".into());
    }
    let attribute: TokenStream = first[6..first.len() - 2].parse().map_err(|_| "attribute tokenize")?;
    let body: TokenStream = lines.collect::<Vec<_>>().join("\n").parse().map_err(|_| "body tokenize")?;
    let (def, _) = asn1rs::model::proc_macro::parse_asn_definition(attribute, body).map_err(|e| format!("attribute parser: {}", e))?;
    let ordering_is_set = matches!(&definition.1, Rust::Struct { .. });
    let _ = ordering_is_set;
    let ts = asn1rs::model::proc_macro::expand(def);
    Ok(ts.iter().map(|t| t.to_string()).collect::<Vec<_>>().join(" "))
}

/// field names in the order `write_seq` visits them
fn write_order(expansion: &str) -> Vec<String> {
    let mut out = Vec::new();
    if let Some(p) = expansion.find("fn write_seq") {
        let rest = &expansion[p..];
        let end = rest.find("Ok (())").unwrap_or(rest.len());
        let body = &rest[..end];
        let mut r = body;
        while let Some(q) = r.find("& self . ") {
            r = &r[q + 9..];
            let name: String = r.chars().take_while(|c| c.is_alphanumeric() || *c == '_' || *c == '#').collect();
            out.push(name.trim_start_matches("r#").to_string());
        }
    }
    out
}

fn read_order(expansion: &str) -> Vec<String> {
    let mut out = Vec::new();
    if let Some(p) = expansion.find("fn read_seq") {
        let rest = &expansion[p..];
        if let Some(q) = rest.find("Ok (Self {") {
            let body = &rest[q + 10..];
            let end = body.find("})").unwrap_or(body.len());
            for part in body[..end].split(":: read_value (reader) ?") {
                // "... , name : AsnDefXFieldName"
                if let Some(c) = part.rfind(" : AsnDef") {
                    let before = part[..c].trim_end();
                    let name: String = before.chars().rev().take_while(|c| c.is_alphanumeric() || *c == '_' || *c == '#').collect::<String>().chars().rev().collect();
                    out.push(name.trim_start_matches("r#").to_string());
                }
            }
        }
    }
    out
}

/// TAG constant of the constraint type of a field: "Universal (2)" etc.
fn field_tag(expansion: &str, struct_name: &str, field_variant: &str) -> Option<String> {
    let marker = format!("Constraint for ___asn1rs_{}Field{}Constraint {{ const TAG", struct_name, field_variant);
    let p = expansion.find(&marker)?;
    let rest = &expansion[p + marker.len()..];
    let q = rest.find("Tag ::")?;
    let rest = &rest[q + 6..];
    let end = rest.find(';')?;
    Some(rest[..end].split_whitespace().collect::<String>())
}

fn variant_name(name: &str) -> String {
    let mut out = String::new();
    let mut up = true;
    for c in name.chars() {
        if up {
            out.extend(c.to_uppercase());
            up = false;
        } else if c == '-' || c == '_' {
            up = true;
        } else {
            out.push(c);
        }
    }
    out
}

fn tag_text(t: &Tag) -> String {
    let class = match t.class {
        Class::Universal => "Universal",
        Class::Application => "Application",
        Class::Context => "ContextSpecific",
        Class::Private => "Private",
    };
    format!("{}({}", class, t.num)
}

pub fn check_def(rep: &mut Report, comps: &Comps, is_set: bool, pattern: &str, sample: bool) {
    rep.eval();
    let mut m = Module::new("Sets");
    support_defs(&mut m);
    m.push_def(Def { name: "Subject".into(), tag: None, ty: if is_set { Type::Set(comps.clone()) } else { Type::Sequence(comps.clone()) } });
    let text = print_module(&m);
    let u = Universe::single(m.clone());
    let wit = |extra: serde_json::Value| json!({"asn1": text, "pattern": pattern, "detail": extra});
    let expansion = match guarded(|| expansion_of(&text, "Subject")) {
        Ok(Ok(e)) => e,
        Ok(Err(e)) => {
            rep.violation(&format!("c16:no-expansion:{}", monitors::journal::normalise_msg(&e).chars().take(60).collect::<String>()), wit(json!({"error": e})));
            return;
        }
        Err(p) => {
            rep.violation(&format!("c16:{}", p.signature()), wit(json!(null)));
            return;
        }
    };
    let names: Vec<String> = comps.all().map(|c| c.name.replace('-', "_")).collect();
    let nroot = comps.root.len();
    let root_order: Vec<usize> = if is_set { set_root_order(&u, 0, comps) } else { (0..nroot).collect() };
    let want_root: Vec<String> = root_order.iter().map(|i| names[*i].clone()).collect();
    let kind = if is_set { "SET" } else { "SEQUENCE" };
    for (which, got) in [("write_seq", write_order(&expansion)), ("read_seq", read_order(&expansion))] {
        if got.len() != names.len() {
            rep.violation(&format!("c16:{}:{}:field-count", kind, which), wit(json!({"visited": got, "components": names})));
            continue;
        }
        if got[..nroot] != want_root[..] {
            // classify
            let root_set: std::collections::BTreeSet<&String> = want_root.iter().collect();
            let got_set: std::collections::BTreeSet<&String> = got[..nroot].iter().collect();
            let cls = if root_set != got_set { "additions-before-root-components" } else { "root-order-not-canonical" };
            rep.violation(&format!("c16:{}:{}:{}:{}", kind, which, cls, pattern), wit(json!({"visited": got, "canonical_root_order": want_root})));
        } else {
            let mut adds: Vec<String> = got[nroot..].to_vec();
            adds.sort();
            let mut want_adds: Vec<String> = names[nroot..].to_vec();
            want_adds.sort();
            if adds != want_adds {
                rep.violation(&format!("c16:{}:{}:additions-differ", kind, which), wit(json!({"visited": got})));
            }
        }
    }
    // tags
    let tags = comp_tags(&u, 0, comps);
    for (i, c) in comps.all().enumerate() {
        let got = field_tag(&expansion, "Subject", &variant_name(&c.name));
        let want = tag_text(&tags[i]);
        match got {
            None => rep.violation(&format!("c16:{}:tag-constant-not-found", kind), wit(json!({"field": c.name}))),
            Some(g) => {
                if !g.starts_with(&want) {
                    let tkind = match &c.ty {
                        Type::Ref(n) => format!("ref:{}", n),
                        t => t.kind_name().to_string(),
                    };
                    rep.violation(
                        &format!("c16:{}:tag:{}:{}:want={}:got={}", kind, pattern, tkind, want.split('(').next().unwrap_or(""), g.split('(').next().unwrap_or("")),
                        wit(json!({"field": c.name, "want": want, "got": g})),
                    );
                }
            }
        }
    }
    rep.hist("patterns", &format!("{}:{}", kind, pattern));
    rep.distinct(hash_str(&text));
    if sample {
        rep.sample(json!({"asn1": text, "canonical_root_order": want_root}));
    }
}

pub fn run(rep: &mut Report, tier: &str, seed: u64, shard: u64, nshards: u64) {
    rep.rule = "SET and SEQUENCE definitions with n <= 5 (quick 4) components drawn from builtin types with distinct universal tags, references to tagged types and to untagged (extensible) CHOICEs; tag patterns {automatic, all-context, mixed classes, partly tagged}; extension marker at each position; all n! textual permutations; field order read from the macro expansion's read_seq/write_seq, TAG constants from the expanded common::Constraint impls; oracle R-tags (X.680 8.6, untagged CHOICE = smallest root tag, automatic tags iff no component tagged). distinct = distinct definitions".into();
    let nmax = if tier == "quick" { 4 } else { 5 };
    let ndraws = if tier == "quick" { 60 } else { 500 };
    let pool = type_pool();
    let mut k = 0u64;
    for draw in 0..ndraws {
        let mut rng = Rng::derive(seed, &["C16"], draw);
        let n = 1 + rng.usize_below(nmax);
        // choose n types with pairwise distinct effective tags
        let mut idx: Vec<usize> = (0..pool.len()).collect();
        rng.shuffle(&mut idx);
        // pairwise distinct tags also when left untagged (SEQUENCE OF / ref to SEQUENCE share 16, SET OF / ref to SET share 17)
        let mut chosen: Vec<usize> = Vec::new();
        let mut own: Vec<u64> = Vec::new();
        for i in idx {
            let t = match pool[i].1 {
                "SEQUENCE OF" | "ref-sequence" => 16,
                "SET OF" | "ref-set" => 17,
                _ => 1000 + i as u64,
            };
            if !own.contains(&t) && chosen.len() < n {
                own.push(t);
                chosen.push(i);
            }
        }
        let n = chosen.len();
        let pattern = *rng.pick(&["automatic", "all-context", "mixed-classes", "partly-tagged"]);
        let mut used: Vec<Tag> = Vec::new();
        let mut comps: Vec<Comp> = Vec::new();
        for (j, ci) in chosen.iter().enumerate() {
            let (ty, _) = &pool[*ci];
            let tag = match pattern {
                "automatic" => None,
                "all-context" => {
                    let t = loop {
                        let t = Tag { class: Class::Context, num: if rng.chance(1, 3) { *rng.pick(LARGE_TAG_NUMBERS) } else { rng.range(0, 9) } };
                        if !used.contains(&t) {
                            break t;
                        }
                    };
                    used.push(t);
                    Some(t)
                }
                "mixed-classes" => {
                    let t = loop {
                        let t = Tag { class: *rng.pick(&[Class::Universal, Class::Application, Class::Context, Class::Private]), num: if rng.chance(1, 3) { *rng.pick(LARGE_TAG_NUMBERS) } else { rng.range(0, 4) + if rng.bool() { 30 } else { 0 } } };
                        // keep clear of the tags untagged components could have in this draw
                        if !used.contains(&t) && !(t.class == Class::Universal && t.num < 30) {
                            break t;
                        }
                    };
                    used.push(t);
                    Some(t)
                }
                _ => {
                    // partly tagged: the first component is always tagged, the others at random; untagged ones keep their own tag
                    if j == 0 || rng.bool() {
                        let t = loop {
                            let t = Tag { class: *rng.pick(&[Class::Application, Class::Context, Class::Private]), num: if rng.chance(1, 3) { *rng.pick(LARGE_TAG_NUMBERS) } else { 40 + rng.range(0, 9) } };
                            if !used.contains(&t) {
                                break t;
                            }
                        };
                        used.push(t);
                        Some(t)
                    } else {
                        None
                    }
                }
            };
            comps.push(Comp { name: format!("f{}{}", j, ["a", "b-x", "cc", "d", "e-e"][j % 5]), tag, ty: ty.clone(), presence: match rng.below(8) { 0 | 1 => Presence::Optional, 2 if matches!(ty, Type::Boolean) => Presence::Default(DefaultVal::Lit(Lit::Bool(true))), 2 if matches!(ty, Type::Integer { .. }) => Presence::Default(DefaultVal::Lit(Lit::Int(3))), _ => Presence::Mandatory } });
        }
        let ext_pos: Option<usize> = if rng.chance(1, 2) && n >= 1 { Some(1 + rng.usize_below(n)) } else { None };
        for perm in permutations(n) {
            k += 1;
            if k % nshards != shard {
                continue;
            }
            let ordered: Vec<Comp> = perm.iter().map(|i| comps[*i].clone()).collect();
            let c = match ext_pos {
                Some(p) => Comps { root: ordered[..p].to_vec(), ext: Some(ordered[p..].to_vec()) },
                None => Comps { root: ordered, ext: None },
            };
            check_def(rep, &c, true, pattern, draw == 0 && k < 3);
            if k % 5 == 0 {
                check_def(rep, &c, false, pattern, false);
            }
        }
    }
    rep.exhaustive = true;
    for pat in ["automatic", "all-context", "mixed-classes", "partly-tagged"] {
        let c = rep.hist.get("patterns").and_then(|h| h.get(&format!("SET:{}", pat))).copied().unwrap_or(0);
        if nshards == 1 || c > 0 {
            rep.floor.insert(format!("pattern:SET:{}", pat), c);
        }
    }
}
