//! C07: parsing preserves every declared element (canonical projection equality).
use crate::common::*;
use crate::proj::*;
use monitors::journal::guarded;
use monitors::report::Report;
use serde_json::json;
use vgen::gen::GenCfg;
use vgen::print::print_module;
use vgen::resolve::resolve_universe;
use vgen::rng::{hash_str, Rng};
use vgen::schema::Universe;

pub fn check_module(rep: &mut Report, m: &vgen::schema::Module, sample: bool) {
    rep.eval();
    let u = Universe::single(m.clone());
    let resolved = match resolve_universe(&u) {
        Ok(r) => r,
        Err(e) => {
            rep.inconclusive(&format!("generator produced an unresolvable module: {}", e));
            return;
        }
    };
    let want = p_module(&resolved.modules[0]);
    let text = print_module(m);
    let got = match guarded(|| parse_and_resolve(&text)) {
        Err(p) => {
            rep.violation(&format!("c07:{}", p.signature()), json!({"text": text}));
            return;
        }
        Ok(Err(e)) => {
            let kind = match &e {
                StageErr::Parse(s) => format!("parse:{}", monitors::journal::normalise_msg(s.lines().next().unwrap_or(""))),
                StageErr::Resolve(s) => format!("resolve:{}", monitors::journal::normalise_msg(s)),
            };
            rep.violation(&format!("c07:rejected:{}", kind.chars().take(90).collect::<String>()), json!({"text": text, "error": format!("{:?}", e)}));
            return;
        }
        Ok(Ok(model)) => a_module(&model),
    };
    let mut kinds = std::collections::BTreeMap::new();
    let n = count_kinds(&want, &mut kinds);
    for (k, c) in kinds {
        rep.hist_add("productions", &k, c);
    }
    if m.oid.is_some() {
        rep.hist("productions", "module-oid");
    }
    if !m.imports.is_empty() {
        rep.hist("productions", "imports");
    }
    if !m.values.is_empty() {
        rep.hist("productions", "value-references");
    }
    let mut diffs = Vec::new();
    all_diffs(&want, &got, "", &mut diffs);
    let mut seen = std::collections::BTreeSet::new();
    for (path, w, g) in diffs {
        // the signature names the innermost construct and the field, not the whole nesting path
        let sig = format!("c07:diff:{}:{}→{}", short_path(&path), w, g);
        if seen.insert(sig.clone()) {
            rep.violation(&sig, json!({"text": text, "path": path, "want": w, "got": g}));
        }
    }
    if n >= 3 {
        rep.distinct(hash_str(&want.to_string()));
    }
    if sample {
        rep.sample(json!({"asn1": text, "definitions": m.defs.len(), "constructs": n}));
    }
}

pub fn run(rep: &mut Report, tier: &str, seed: u64, shard: u64, nshards: u64) {
    rep.rule = "random modules from the grammar-based generator (depth <= 4, fan-out <= 6, every production of the supported subset), canonical layout; P(own AST resolved by own resolver) == P(asn1rs: Tokenizer -> Model::try_from -> try_resolve). Identifications built into P: SIZE(0..MAX) = no size constraint, SIZE(n..n) = SIZE(n), (MIN..MAX) = no range. distinct = distinct projections with >= 3 nested constructs".into();
    let n = if tier == "quick" { 1500 } else { 20_000 } / nshards;
    let cfg = GenCfg::front();
    for i in 0..n {
        let mut rng = Rng::derive(seed, &["C07"], shard * 1_000_000 + i);
        let m = random_module(&mut rng, &cfg, shard * 1_000_000 + i);
        check_module(rep, &m, i < 2);
    }
    for prod in ["INTEGER", "ENUMERATED", "BIT STRING", "OCTET STRING", "SEQUENCE", "SET", "SEQUENCE OF", "SET OF", "CHOICE", "REF", "BOOLEAN", "NULL",
        "UTF8String", "IA5String", "NumericString", "PrintableString", "VisibleString", "extension-marker", "explicit-tag", "OPTIONAL", "DEFAULT",
        "named-numbers", "size-fixed", "size-range", "size-extensible", "module-oid", "imports", "value-references"] {
        let c = rep.hist.get("productions").and_then(|h| h.get(prod)).copied().unwrap_or(0);
        rep.floor.insert(format!("production:{}", prod), c);
    }
}
