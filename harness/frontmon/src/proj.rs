//! Canonical projection P (DESIGN.md C07): computed once from my AST and once from asn1rs's resolved model.
use asn1rs::model::asn as a;
use asn1rs::model::asn::{Asn, Tag as ATag};
use asn1rs::model::parse::Tokenizer;
use asn1rs::model::resolve::{Resolved, Unresolved};
use asn1rs::model::{LiteralValue, Model};
use serde_json::{json, Value};
use vgen::schema::*;

pub type AsnModel = Model<Asn<Resolved>>;
pub type AsnModelU = Model<Asn<Unresolved>>;

pub const MAX_SIZE: i128 = i64::MAX as i128;

// ---------------------------------------------------------------------------------------------
// from my AST (resolved by vgen's own resolver)

fn p_tag(t: &Option<Tag>) -> Value {
    match t {
        None => Value::Null,
        Some(t) => json!(format!("{:?}:{}", t.class, t.num)),
    }
}

fn p_bound_int(b: &Bound) -> Value {
    match b {
        Bound::Min | Bound::Max => Value::Null,
        Bound::Lit(v) => json!(v.to_string()),
        Bound::Ref(r) => json!(format!("ref:{}", r)),
    }
}

fn p_size(s: &Size) -> Value {
    fn lit(b: &Bound, is_lo: bool) -> i128 {
        match b {
            Bound::Lit(v) => *v,
            Bound::Min => 0,
            Bound::Max => {
                if is_lo {
                    0
                } else {
                    MAX_SIZE
                }
            }
            Bound::Ref(_) => -1,
        }
    }
    match s {
        Size::None => Value::Null,
        Size::Fixed(n, e) => json!({"fix": lit(n, true).to_string(), "ext": e}),
        Size::Range(a, b, e) => {
            let (lo, hi) = (lit(a, true), lit(b, false));
            // the two identifications built into P
            if lo == 0 && hi == MAX_SIZE && !*e {
                Value::Null
            } else if lo == hi {
                json!({"fix": lo.to_string(), "ext": e})
            } else {
                json!({"lo": lo.to_string(), "hi": if hi == MAX_SIZE { "MAX".to_string() } else { hi.to_string() }, "ext": e})
            }
        }
    }
}

pub fn p_lit(l: &Lit) -> Value {
    match l {
        Lit::Bool(b) => json!({"bool": b}),
        Lit::Int(i) => json!({"int": i.to_string()}),
        Lit::Str(s) => json!({"str": s}),
        Lit::Hex(h) => json!({"octets": vgen::bits::hex(h)}),
        Lit::Bin(b) => json!({"bits": vgen::bits::bitstr(b)}),
        Lit::EnumItem(n) => json!({"enum_item": n}),
    }
}

fn p_presence(p: &Presence) -> Value {
    match p {
        Presence::Mandatory => json!("M"),
        Presence::Optional => json!("O"),
        Presence::Default(DefaultVal::Lit(l)) => json!({"D": p_lit(l)}),
        Presence::Default(DefaultVal::Ref(r)) => json!({"D": {"ref": r}}),
    }
}

fn p_comps(c: &Comps) -> Value {
    let comps: Vec<Value> = c
        .all()
        .map(|c| json!({"name": c.name, "tag": p_tag(&c.tag), "type": p_type(&c.ty), "presence": p_presence(&c.presence)}))
        .collect();
    json!({"comps": comps, "root_count": c.ext.as_ref().map(|_| c.root.len())})
}

pub fn p_type(t: &Type) -> Value {
    match t {
        Type::Boolean => json!({"k": "BOOLEAN"}),
        Type::Null => json!({"k": "NULL"}),
        Type::Integer { c, named } => {
            let (lo, hi, ext) = match c {
                None => (Value::Null, Value::Null, false),
                Some(c) => (p_bound_int(&c.lo), p_bound_int(&c.hi), c.ext),
            };
            json!({"k": "INTEGER", "lo": lo, "hi": hi, "ext": ext, "named": named.iter().map(|(n, v)| json!([n, v])).collect::<Vec<_>>()})
        }
        Type::Enumerated { root, ext } => {
            let items: Vec<Value> = root
                .iter()
                .chain(ext.iter().flatten())
                .map(|i| json!({"name": i.name, "num": i.num}))
                .collect();
            json!({"k": "ENUMERATED", "items": items, "root_count": ext.as_ref().map(|_| root.len())})
        }
        Type::BitString { size, named } => {
            json!({"k": "BIT STRING", "size": p_size(size), "named": named.iter().map(|(n, v)| json!([n, v])).collect::<Vec<_>>()})
        }
        Type::OctetString { size } => json!({"k": "OCTET STRING", "size": p_size(size)}),
        Type::CharString { cs, size } => json!({"k": cs.asn_name(), "size": p_size(size)}),
        Type::Sequence(c) => {
            let mut v = p_comps(c);
            v["k"] = json!("SEQUENCE");
            v
        }
        Type::Set(c) => {
            let mut v = p_comps(c);
            v["k"] = json!("SET");
            v
        }
        Type::SequenceOf { elem, size } => json!({"k": "SEQUENCE OF", "size": p_size(size), "elem": p_type(elem)}),
        Type::SetOf { elem, size } => json!({"k": "SET OF", "size": p_size(size), "elem": p_type(elem)}),
        Type::Choice { root, ext } => {
            let alts: Vec<Value> = root
                .iter()
                .chain(ext.iter().flatten())
                .map(|a| json!({"name": a.name, "tag": p_tag(&a.tag), "type": p_type(&a.ty)}))
                .collect();
            json!({"k": "CHOICE", "alts": alts, "root_count": ext.as_ref().map(|_| root.len())})
        }
        Type::Ref(n) => json!({"k": "REF", "name": n}),
    }
}

fn p_oid(o: &Option<Vec<OidComp>>) -> Value {
    match o {
        None => Value::Null,
        Some(v) => Value::Array(
            v.iter()
                .map(|c| match c {
                    OidComp::Name(n) => json!({"name": n}),
                    OidComp::Num(n) => json!({"num": n}),
                    OidComp::NameNum(n, k) => json!({"name": n, "num": k}),
                })
                .collect(),
        ),
    }
}

/// asn1rs strips a trailing "Module"/"_Module" from module names by design (make_names_nice)
pub fn nice_name(n: &str) -> String {
    let mut n = n.to_string();
    for suffix in ["_Module", "Module"] {
        if n.ends_with(suffix) {
            n.truncate(n.len() - suffix.len());
        }
    }
    n
}

pub fn p_module(m: &Module) -> Value {
    json!({
        "name": nice_name(&m.name),
        "oid": p_oid(&m.oid),
        "imports": m.imports.iter().map(|i| json!({"what": i.what, "from": nice_name(&i.from), "from_oid": p_oid(&i.from_oid)})).collect::<Vec<_>>(),
        "values": m.values.iter().map(|v| json!({"name": v.name, "type": p_type(&v.ty), "lit": p_lit(&v.lit)})).collect::<Vec<_>>(),
        "defs": m.defs.iter().map(|d| json!({"name": d.name, "tag": p_tag(&d.tag), "type": p_type(&d.ty)})).collect::<Vec<_>>(),
    })
}

// ---------------------------------------------------------------------------------------------
// from asn1rs's resolved model

fn a_tag(t: &Option<ATag>) -> Value {
    match t {
        None => Value::Null,
        Some(ATag::Universal(n)) => json!(format!("Universal:{}", n)),
        Some(ATag::Application(n)) => json!(format!("Application:{}", n)),
        Some(ATag::ContextSpecific(n)) => json!(format!("Context:{}", n)),
        Some(ATag::Private(n)) => json!(format!("Private:{}", n)),
    }
}

fn a_size(s: &a::Size<usize>) -> Value {
    match s {
        a::Size::Any => Value::Null,
        a::Size::Fix(n, e) => json!({"fix": n.to_string(), "ext": e}),
        a::Size::Range(lo, hi, e) => {
            let (lo, hi) = (*lo as i128, *hi as i128);
            if lo == 0 && hi == MAX_SIZE && !*e {
                Value::Null
            } else if lo == hi {
                json!({"fix": lo.to_string(), "ext": e})
            } else {
                json!({"lo": lo.to_string(), "hi": if hi == MAX_SIZE { "MAX".to_string() } else { hi.to_string() }, "ext": e})
            }
        }
    }
}

pub fn a_lit(l: &LiteralValue) -> Value {
    match l {
        LiteralValue::Boolean(b) => json!({"bool": b}),
        LiteralValue::Integer(i) => json!({"int": i.to_string()}),
        LiteralValue::String(s) => json!({"str": s}),
        LiteralValue::OctetString(h) => json!({"octets": vgen::bits::hex(h)}),
        LiteralValue::EnumeratedVariant(_ty, item) => json!({"enum_item": item}),
    }
}

fn a_charset(c: &a::Charset) -> &'static str {
    match c {
        a::Charset::Utf8 => "UTF8String",
        a::Charset::Numeric => "NumericString",
        a::Charset::Printable => "PrintableString",
        a::Charset::Ia5 => "IA5String",
        a::Charset::Visible => "VisibleString",
    }
}

fn a_comps(c: &a::ComponentTypeList<Resolved>) -> Value {
    let comps: Vec<Value> = c
        .fields
        .iter()
        .map(|f| {
            let (ty, optional) = match &f.role.r#type {
                a::Type::Optional(inner) => (&**inner, true),
                other => (other, false),
            };
            let presence = match (&f.role.default, optional) {
                (Some(d), false) => json!({"D": a_lit(d)}),
                (Some(d), true) => json!({"O+D": a_lit(d)}),
                (None, true) => json!("O"),
                (None, false) => json!("M"),
            };
            json!({"name": f.name, "tag": a_tag(&f.role.tag), "type": a_type(ty), "presence": presence})
        })
        .collect();
    json!({"comps": comps, "root_count": c.extension_after.map(|i| i + 1)})
}

pub fn a_type(t: &a::Type<Resolved>) -> Value {
    match t {
        a::Type::Boolean => json!({"k": "BOOLEAN"}),
        a::Type::Null => json!({"k": "NULL"}),
        a::Type::Integer(i) => {
            json!({"k": "INTEGER",
                "lo": i.range.0.map(|v| v.to_string()),
                "hi": i.range.1.map(|v| v.to_string()),
                "ext": i.range.2,
                "named": i.constants.iter().map(|(n, v)| json!([n, v])).collect::<Vec<_>>()})
        }
        a::Type::Enumerated(e) => {
            let items: Vec<Value> = e.variants().map(|v| json!({"name": v.name(), "num": v.number()})).collect();
            json!({"k": "ENUMERATED", "items": items, "root_count": e.extension_after_index().map(|i| i + 1)})
        }
        a::Type::BitString(b) => {
            json!({"k": "BIT STRING", "size": a_size(&b.size), "named": b.constants.iter().map(|(n, v)| json!([n, v])).collect::<Vec<_>>()})
        }
        a::Type::OctetString(s) => json!({"k": "OCTET STRING", "size": a_size(s)}),
        a::Type::String(s, cs) => json!({"k": a_charset(cs), "size": a_size(s)}),
        a::Type::Sequence(c) => {
            let mut v = a_comps(c);
            v["k"] = json!("SEQUENCE");
            v
        }
        a::Type::Set(c) => {
            let mut v = a_comps(c);
            v["k"] = json!("SET");
            v
        }
        a::Type::SequenceOf(e, s) => json!({"k": "SEQUENCE OF", "size": a_size(s), "elem": a_type(e)}),
        a::Type::SetOf(e, s) => json!({"k": "SET OF", "size": a_size(s), "elem": a_type(e)}),
        a::Type::Choice(c) => {
            let alts: Vec<Value> = c
                .variants()
                .map(|v| json!({"name": v.name, "tag": a_tag(&v.tag), "type": a_type(&v.r#type)}))
                .collect();
            json!({"k": "CHOICE", "alts": alts, "root_count": c.extension_after_index().map(|i| i + 1)})
        }
        a::Type::TypeReference(n, _tag) => json!({"k": "REF", "name": n}),
        a::Type::Optional(inner) => json!({"k": "OPTIONAL?", "inner": a_type(inner)}),
        a::Type::Default(inner, l) => json!({"k": "DEFAULT?", "inner": a_type(inner), "lit": a_lit(l)}),
    }
}

fn a_oid(o: &Option<a::ObjectIdentifier>) -> Value {
    match o {
        None => Value::Null,
        Some(o) => Value::Array(
            o.iter()
                .map(|c| match c {
                    a::ObjectIdentifierComponent::NameForm(n) => json!({"name": n}),
                    a::ObjectIdentifierComponent::NumberForm(n) => json!({"num": n}),
                    a::ObjectIdentifierComponent::NameAndNumberForm(n, k) => json!({"name": n, "num": k}),
                })
                .collect(),
        ),
    }
}

pub fn a_module(m: &AsnModel) -> Value {
    json!({
        "name": m.name,
        "oid": a_oid(&m.oid),
        "imports": m.imports.iter().map(|i| json!({"what": i.what, "from": i.from, "from_oid": a_oid(&i.from_oid)})).collect::<Vec<_>>(),
        "values": m.value_references.iter().map(|v| json!({"name": v.name, "type": a_type(&v.role.r#type), "lit": a_lit(&v.value)})).collect::<Vec<_>>(),
        "defs": m.definitions.iter().map(|d| json!({"name": d.0, "tag": a_tag(&d.1.tag), "type": a_type(&d.1.r#type)})).collect::<Vec<_>>(),
    })
}

// ---------------------------------------------------------------------------------------------
// diff

fn short(v: &Value) -> String {
    let s = v.to_string();
    if s.chars().count() > 48 {
        let t: String = s.chars().take(48).collect();
        format!("{}…", t)
    } else {
        s
    }
}

/// all differences: (path with array indices stripped, expected, got); capped
pub fn all_diffs(want: &Value, got: &Value, path: &str, out: &mut Vec<(String, String, String)>) {
    if out.len() >= 24 {
        return;
    }
    match (want, got) {
        (Value::Object(a), Value::Object(b)) => {
            // different key sets: report the keys, not the values (keeps signatures value-independent)
            if !a.keys().eq(b.keys()) && a.get("k") == b.get("k") {
                let ka: Vec<&str> = a.keys().map(|k| k.as_str()).collect();
                let kb: Vec<&str> = b.keys().map(|k| k.as_str()).collect();
                out.push((path.to_string(), format!("{{{}}}", ka.join(",")), format!("{{{}}}", kb.join(","))));
                // deviation model of the recorded finding "bstring stored as right-aligned octets":
                // the octets must still be exactly the number the bits denote, in ceil(n/8) bytes
                if let (Some(Value::String(bits)), Some(Value::String(octets))) = (a.get("bits"), b.get("octets")) {
                    let n = bits.len();
                    let mut bytes = vec![0u8; (n + 7) / 8];
                    for (i, c) in bits.chars().rev().enumerate() {
                        if c == '1' {
                            let idx = bytes.len() - 1 - i / 8;
                            bytes[idx] |= 1 << (i % 8);
                        }
                    }
                    if &vgen::bits::hex(&bytes) != octets {
                        out.push((format!("{}.octets-vs-deviation-model", path), vgen::bits::hex(&bytes), octets.clone()));
                    }
                }
                return;
            }
            let kind = a.get("k").and_then(|v| v.as_str()).unwrap_or("");
            if let (Some(x), Some(y)) = (a.get("k"), b.get("k")) {
                if x != y {
                    out.push((format!("{}.k", path), short(x), short(y)));
                    return;
                }
            }
            let mut keys: Vec<&String> = a.keys().chain(b.keys()).collect();
            keys.sort();
            keys.dedup();
            for k in keys {
                if k == "k" {
                    continue;
                }
                let (x, y) = (a.get(k).unwrap_or(&Value::Null), b.get(k).unwrap_or(&Value::Null));
                let sub = if kind.is_empty() { format!("{}.{}", path, k) } else { format!("{}<{}>.{}", path, kind, k) };
                all_diffs(x, y, &sub, out);
            }
        }
        (Value::Array(a), Value::Array(b)) => {
            if a.len() != b.len() {
                out.push((format!("{}.len", path), a.len().to_string(), b.len().to_string()));
                return;
            }
            for (x, y) in a.iter().zip(b.iter()) {
                all_diffs(x, y, &format!("{}[]", path), out);
            }
        }
        (a, b) => {
            if a != b {
                out.push((path.to_string(), short(a), short(b)));
            }
        }
    }
}

pub fn first_diff(want: &Value, got: &Value, path: &str) -> Option<(String, String, String)> {
    let mut v = Vec::new();
    all_diffs(want, got, path, &mut v);
    v.into_iter().next()
}

pub fn short_path(path: &str) -> String {
    match path.rfind('<') {
        Some(p) => path[p..].to_string(),
        None => path.to_string(),
    }
}

// ---------------------------------------------------------------------------------------------
// the real front end

#[derive(Debug)]
pub enum StageErr {
    Parse(String),
    Resolve(String),
}

pub fn parse_text(text: &str) -> Result<AsnModelU, StageErr> {
    let tokens = Tokenizer.parse(text);
    Model::try_from(tokens).map_err(|e| StageErr::Parse(format!("{}", e)))
}

pub fn parse_and_resolve(text: &str) -> Result<AsnModel, StageErr> {
    let m = parse_text(text)?;
    m.try_resolve().map_err(|e| StageErr::Resolve(format!("{:?}", e)))
}
