//! C14: the front end is total (fault enumeration on module text, sandboxed).
use crate::common::*;
use asn1rs::model::generate::protobuf::ProtobufDefGenerator;
use asn1rs::model::generate::{Generator, RustCodeGenerator};
use asn1rs::model::parse::{Token, Tokenizer};
use asn1rs::model::protobuf::ToProtobufModel;
use asn1rs::model::Model;
use monitors::journal::{guarded, normalise_msg};
use monitors::report::Report;
use monitors::sandbox::{run_batches, SandboxCfg};
use serde_json::{json, Value};
use vgen::gen::GenCfg;
use vgen::print::print_module;
use vgen::rng::{hash_str, Rng};

pub const VOCAB: &[&str] = &[
    "DEFINITIONS", "AUTOMATIC", "TAGS", "BEGIN", "END", "IMPORTS", "FROM", "SEQUENCE", "SET", "OF", "CHOICE", "ENUMERATED", "INTEGER",
    "BOOLEAN", "NULL", "OCTET", "BIT", "STRING", "UTF8String", "IA5String", "NumericString", "PrintableString", "VisibleString", "SIZE",
    "OPTIONAL", "DEFAULT", "MIN", "MAX", "TRUE", "FALSE", "WITH", "COMPONENTS", "PRESENT", "ABSENT", "UNIVERSAL", "APPLICATION", "PRIVATE",
    "::=", "..", "...", "{", "}", "(", ")", "[", "]", ",", ";", ":", "=", ".", "'", "\"", "-", "--", "/*", "*/", "0", "1", "-1", "42",
    "99999999999999999999", "-99999999999999999999", "x", "Abc", "abc-def", "T1", "'01'B", "'AF'H", "\"str\"", "18446744073709551615", "9223372036854775808",
];

pub fn lexemes(text: &str) -> Vec<String> {
    let mut out = Vec::new();
    let mut cur = String::new();
    for c in text.chars() {
        if c.is_alphanumeric() || c == '-' || c == '_' {
            cur.push(c);
        } else {
            if !cur.is_empty() {
                out.push(std::mem::take(&mut cur));
            }
            if !c.is_whitespace() {
                out.push(c.to_string());
            }
        }
    }
    if !cur.is_empty() {
        out.push(cur);
    }
    out
}

fn join(lex: &[String], rng: &mut Rng) -> String {
    let mut s = String::new();
    for (i, l) in lex.iter().enumerate() {
        s.push_str(l);
        if i % 9 == 8 || rng.chance(1, 12) {
            s.push('\n');
        } else {
            s.push(' ');
        }
    }
    s
}

pub fn mutate(base: &str, rng: &mut Rng) -> (String, Vec<&'static str>) {
    let nfaults = rng.range(1, 4);
    let mut kinds = Vec::new();
    let mut text = base.to_string();
    for _ in 0..nfaults {
        let kind = *rng.pick(&["delete-token", "duplicate-token", "swap-tokens", "replace-token", "insert-token", "delete-char", "insert-char", "truncate-token", "truncate-char"]);
        kinds.push(kind);
        match kind {
            "delete-char" | "insert-char" | "truncate-char" => {
                let chars: Vec<char> = text.chars().collect();
                if chars.is_empty() {
                    continue;
                }
                let pos = rng.usize_below(chars.len());
                let mut v = chars.clone();
                match kind {
                    "delete-char" => {
                        v.remove(pos);
                    }
                    "insert-char" => {
                        let c = *rng.pick(&['{', '}', '(', ')', '.', ',', ':', '=', '"', '\'', '-', '/', '*', ' ', '\n', '\t', '0', 'x', 'Z', '[', ']', ';', 'é', '\u{0}', '\u{7f}']);
                        v.insert(pos, c);
                    }
                    _ => v.truncate(pos),
                }
                text = v.into_iter().collect();
            }
            _ => {
                let mut lex = lexemes(&text);
                if lex.is_empty() {
                    continue;
                }
                let pos = rng.usize_below(lex.len());
                match kind {
                    "delete-token" => {
                        lex.remove(pos);
                    }
                    "duplicate-token" => {
                        let t = lex[pos].clone();
                        lex.insert(pos, t);
                    }
                    "swap-tokens" => {
                        if pos + 1 < lex.len() {
                            lex.swap(pos, pos + 1);
                        }
                    }
                    "replace-token" => lex[pos] = rng.pick(VOCAB).to_string(),
                    "insert-token" => lex.insert(pos, rng.pick(VOCAB).to_string()),
                    _ => lex.truncate(pos),
                }
                text = join(&lex, rng);
            }
        }
    }
    (text, kinds)
}

pub fn soup(rng: &mut Rng) -> String {
    let n = rng.range(1, 60);
    let mut lex: Vec<String> = Vec::new();
    if rng.chance(3, 4) {
        lex.extend(["Soup".to_string(), "DEFINITIONS".into(), "::=".into(), "BEGIN".into()]);
    }
    for _ in 0..n {
        lex.push(rng.pick(VOCAB).to_string());
    }
    if rng.chance(1, 2) {
        lex.push("END".into());
    }
    join(&lex, rng)
}

/// is there an unterminated block comment (nesting counted) - the documented panic condition
pub fn has_unterminated_block_comment(text: &str) -> bool {
    // mirrors X.680 12.6.4: "/*" ... "*/" nest; "--" line comments outside block comments hide the rest of the line
    let mut level = 0i32;
    for line in text.lines() {
        let c: Vec<char> = line.chars().collect();
        let mut i = 0;
        while i < c.len() {
            if level > 0 {
                if c[i] == '*' && c.get(i + 1) == Some(&'/') {
                    level -= 1;
                    i += 2;
                    continue;
                }
                if c[i] == '/' && c.get(i + 1) == Some(&'*') {
                    level += 1;
                    i += 2;
                    continue;
                }
                i += 1;
            } else {
                if c[i] == '-' && c.get(i + 1) == Some(&'-') {
                    break;
                }
                if c[i] == '/' && c.get(i + 1) == Some(&'*') {
                    level += 1;
                    i += 2;
                    continue;
                }
                i += 1;
            }
        }
    }
    level > 0
}

fn token_at_location(text: &str, t: &Token) -> bool {
    let loc = t.location();
    let line = match text.lines().nth(loc.line().wrapping_sub(1)) {
        Some(l) => l,
        None => return false,
    };
    let rest: String = line.chars().skip(loc.column().wrapping_sub(1)).collect();
    match t {
        Token::Separator(_, c) => rest.starts_with(*c),
        Token::Text(_, s) => {
            // literal tokens are re-assembled from several tokens; the first character decides
            match s.chars().next() {
                Some(c) => rest.starts_with(c),
                None => false,
            }
        }
    }
}

pub fn run_stages(rep: &mut Report, text: &str, origin: &str, faults: &[&'static str]) {
    rep.eval();
    let wit = || json!({"origin": origin, "faults": faults, "text": text});
    let sanctioned = has_unterminated_block_comment(text);
    let cell = |stage: &str, outcome: &str| format!("{}:{}", stage, outcome);
    // stage 1: tokenizer
    let tokens = match guarded(|| Tokenizer.parse(text)) {
        Ok(t) => t,
        Err(p) => {
            if sanctioned && p.msg.contains("unclosed comment blocks") {
                rep.hist("outcomes", "tokenizer:sanctioned-panic");
            } else {
                rep.violation(&format!("c14:tokenizer:{}", p.signature()), wit());
            }
            return;
        }
    };
    // stage 2: parser
    let model = match guarded(|| Model::try_from(tokens)) {
        Err(p) => {
            rep.violation(&format!("c14:parser:{}", p.signature()), wit());
            return;
        }
        Ok(Err(e)) => {
            let msg = normalise_msg(format!("{}", e).lines().next().unwrap_or(""));
            let kind: String = msg.split(|c: char| c == '"' || c == '\'').next().unwrap_or("").trim().chars().take(50).collect();
            rep.hist("outcomes", &cell("parser", &format!("Err({})", kind)));
            for f in faults {
                rep.distinct(hash_str(&format!("{}|{}", kind, f)));
            }
            match e.token() {
                Some(t) => {
                    if !token_at_location(text, t) {
                        rep.violation(&format!("c14:error-token-not-at-reported-location:{}", kind), json!({"case": wit(), "token": format!("{}", t), "location": [t.location().line(), t.location().column()]}));
                    }
                }
                None => rep.hist("outcomes", "parser:error-without-token"),
            }
            return;
        }
        Ok(Ok(m)) => m,
    };
    // stage 3: resolver
    let resolved = match guarded(|| model.try_resolve()) {
        Err(p) => {
            rep.violation(&format!("c14:resolver:{}", p.signature()), wit());
            return;
        }
        Ok(Err(e)) => {
            let kind = format!("{:?}", e);
            let kind = kind.split('(').next().unwrap_or("").to_string();
            rep.hist("outcomes", &cell("resolver", &format!("Err({})", kind)));
            for f in faults {
                rep.distinct(hash_str(&format!("{}|{}", kind, f)));
            }
            return;
        }
        Ok(Ok(m)) => m,
    };
    // stage 4: rust model + generator
    let rust = match guarded(|| resolved.to_rust()) {
        Err(p) => {
            rep.violation(&format!("c14:to_rust:{}", p.signature()), wit());
            return;
        }
        Ok(m) => m,
    };
    match guarded(|| {
        let mut g = RustCodeGenerator::default();
        g.add_model(rust.clone());
        g.to_string().map(|v| v.len())
    }) {
        Err(p) => {
            rep.violation(&format!("c14:rust-generator:{}", p.signature()), wit());
            return;
        }
        Ok(_) => {}
    }
    // stage 5: protobuf model + generator
    match guarded(|| {
        let pm = rust.to_protobuf();
        let mut g = ProtobufDefGenerator::default();
        g.add_model(pm);
        g.to_string().map(|v| v.len()).map_err(|e| format!("{:?}", e))
    }) {
        Err(p) => {
            rep.violation(&format!("c14:protobuf:{}", p.signature()), wit());
            return;
        }
        Ok(_) => {}
    }
    rep.hist("outcomes", "accepted-through-all-stages");
    rep.distinct(hash_str(text));
}

pub fn run(rep: &mut Report, tier: &str, seed: u64, shard: u64, nshards: u64) {
    rep.rule = "valid modules (random generator + inline modules of /repo/tests) with 1..4 faults from {delete/duplicate/swap/replace/insert token, delete/insert char, truncate at token/char}, plus random token soups from the ASN.1 vocabulary; stages: Tokenizer::parse, Model::try_from, try_resolve, to_rust + RustCodeGenerator, to_protobuf + ProtobufDefGenerator, each under catch_unwind in forked batches (aborts, hangs). distinct = distinct (error kind, fault kind) cells plus distinct mutants accepted through all stages".into();
    let total: u64 = if tier == "quick" { 40_000 } else { 2_000_000 } / nshards;
    let cfg = GenCfg::front();
    let corpus = corpus();
    rep.hist_add("inputs", "corpus-modules", corpus.len() as u64);
    // self-referential definitions: legal text for the parser, a trap for everything that follows references
    const CYCLES: &[&str] = &[
        "A ::= A",
        "A ::= B\nB ::= A",
        "A ::= B\nB ::= C\nC ::= A",
        "A ::= [5] A",
        "A ::= CHOICE { a A, b BOOLEAN }",
        "A ::= CHOICE { a B }\nB ::= CHOICE { b A }",
        "A ::= SET { a A OPTIONAL, b B }\nB ::= A",
        "A ::= SEQUENCE { a A }",
        "A ::= SEQUENCE OF A",
        "A ::= SET OF A",
        "A ::= SEQUENCE { a A DEFAULT x }",
        "A ::= INTEGER (a..b)\na A ::= b\nb A ::= a",
        "a INTEGER ::= a",
        "a INTEGER ::= b\nb INTEGER ::= a\nT ::= INTEGER (a..b)",
        "T ::= OCTET STRING (SIZE (n))\nn INTEGER ::= n",
        "FALSE ::= FALSE",
    ];
    let make = |i: u64| -> (String, String, Vec<&'static str>) {
        if shard == 0 && (i as usize) < CYCLES.len() {
            return (format!("Cyc DEFINITIONS AUTOMATIC TAGS ::= BEGIN\n{}\nEND\n", CYCLES[i as usize]), "self-reference".to_string(), vec!["self-reference"]);
        }
        let mut rng = Rng::derive(seed, &["C14"], shard * 100_000_000 + i);
        match rng.below(10) {
            0 => (soup(&mut rng), "soup".to_string(), vec!["soup"]),
            1..=3 if !corpus.is_empty() => {
                let (name, text) = rng.pick(&corpus).clone();
                let (t, k) = mutate(&text, &mut rng);
                (t, format!("corpus:{}", name), k)
            }
            _ => {
                let m = random_module(&mut rng, &cfg, i % 5000);
                let (t, k) = mutate(&print_module(&m), &mut rng);
                (t, "random-module".to_string(), k)
            }
        }
    };
    // replay of one case in this process (no sandbox): C14_ONLY=<case index>, with --shard/--nshards as recorded
    if let Ok(only) = std::env::var("C14_ONLY") {
        if let Ok(i) = only.parse::<u64>() {
            let (text, origin, faults) = make(i);
            eprintln!("--- case {} of shard {}: origin {} faults {:?}\n{}\n---", i, shard, origin, faults, text);
            run_stages(rep, &text, &origin, &faults);
            return;
        }
    }
    let sb = SandboxCfg { batch: 1000, ..Default::default() };
    run_batches(
        rep,
        total,
        &sb,
        |rep, i| {
            let (text, origin, faults) = make(i);
            for f in &faults {
                rep.hist("faults", f);
            }
            run_stages(rep, &text, &origin, &faults);
        },
        |i| {
            let (text, origin, faults) = make(i);
            ("c14".to_string(), json!({"origin": origin, "faults": faults, "text": text}) as Value)
        },
    );
    if shard == 0 {
        let c = rep.hist.get("faults").and_then(|h| h.get("self-reference")).copied().unwrap_or(0);
        rep.floor.insert("fault:self-reference".into(), c);
    }
    for f in ["delete-token", "duplicate-token", "swap-tokens", "replace-token", "insert-token", "delete-char", "insert-char", "truncate-token", "truncate-char", "soup"] {
        let c = rep.hist.get("faults").and_then(|h| h.get(f)).copied().unwrap_or(0);
        rep.floor.insert(format!("fault:{}", f), c);
    }
    let acc = rep.hist.get("outcomes").and_then(|h| h.get("accepted-through-all-stages")).copied().unwrap_or(0);
    rep.floor.insert("mutants-accepted-through-all-stages".into(), acc);
}
