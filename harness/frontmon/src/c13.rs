//! C13: whitespace/comment layout invariance and token locations (R-lexer).
use crate::common::*;
use asn1rs::model::asn::Asn;
use asn1rs::model::parse::{Token, Tokenizer};
use asn1rs::model::resolve::Unresolved;
use asn1rs::model::Model;
use monitors::journal::guarded;
use monitors::report::Report;
use serde_json::json;
use vgen::gen::GenCfg;
use vgen::print::*;
use vgen::rng::{hash_str, Rng};

fn tok_matches(t: &Token, r: &RTok) -> bool {
    match (t, r) {
        (Token::Text(_, s), RTok::Text(w)) => s == w,
        (Token::Separator(_, c), RTok::Sep(w)) => c == w,
        _ => false,
    }
}

fn models_equal(a: &Model<Asn<Unresolved>>, b: &Model<Asn<Unresolved>>) -> Option<&'static str> {
    if a.name != b.name {
        return Some("name");
    }
    if a.oid != b.oid {
        return Some("oid");
    }
    if a.imports != b.imports {
        return Some("imports");
    }
    if a.definitions != b.definitions {
        return Some("definitions");
    }
    if a.value_references != b.value_references {
        return Some("value_references");
    }
    None
}

pub fn check_layout(rep: &mut Report, items: &[Lex], canonical_model: &Option<Model<Asn<Unresolved>>>, style: LayoutStyle, rng: &mut Rng, sample: bool) {
    rep.eval();
    let l = layout(items, style, rng);
    for k in &l.kinds_used {
        rep.hist("separators", k);
    }
    rep.hist("styles", &format!("{:?}", style));
    let got = match guarded(|| Tokenizer.parse(&l.text)) {
        Ok(t) => t,
        Err(p) => {
            rep.violation(&format!("c13:tokenizer:{}", p.signature()), json!({"text": l.text}));
            return;
        }
    };
    // token sequence
    let mut mismatch = None;
    for i in 0..got.len().max(l.toks.len()) {
        match (got.get(i), l.toks.get(i)) {
            (Some(g), Some(w)) if tok_matches(g, &w.tok) => {}
            _ => {
                mismatch = Some(i);
                break;
            }
        }
    }
    if let Some(i) = mismatch {
        // which separator kind follows the item that holds token i?
        let item = l.item_tok_start.iter().rposition(|s| *s <= i).unwrap_or(0);
        let before = l.boundary_kinds.get(item).copied().unwrap_or("");
        let after = l.boundary_kinds.get(item + 1).copied().unwrap_or("end");
        let glued = match (got.get(i), l.toks.get(i), l.toks.get(i + 1)) {
            (Some(Token::Text(_, g)), Some(PlacedTok { tok: RTok::Text(a), .. }), Some(PlacedTok { tok: RTok::Text(b), .. })) => g == &format!("{}{}", a, b),
            _ => false,
        };
        let what = if glued { format!("glued-across:{}", after) } else { format!("differs:before={}:after={}", before, after) };
        rep.violation(
            &format!("c13:tokens:{}", what),
            json!({"text": l.text, "token_index": i, "want": l.toks.get(i).map(|t| format!("{:?}", t.tok)), "got": got.get(i).map(|t| format!("{}", t))}),
        );
        return;
    }
    // locations
    for (g, w) in got.iter().zip(l.toks.iter()) {
        let loc = g.location();
        if loc.line() != w.line || loc.column() != w.col {
            let line_text = l.text.lines().nth(w.line.saturating_sub(1)).unwrap_or("");
            let cls = if !line_text.is_ascii() {
                "non-ascii-on-line"
            } else if line_text.contains('\t') {
                "tab-on-line"
            } else if loc.line() != w.line {
                "line"
            } else {
                "column"
            };
            rep.violation(
                &format!("c13:location:{}", cls),
                json!({"text": l.text, "token": format!("{}", g), "reported": [loc.line(), loc.column()], "actual": [w.line, w.col]}),
            );
            return;
        }
    }
    // model equality
    if let Some(cm) = canonical_model {
        match guarded(|| Model::try_from(got)) {
            Ok(Ok(m)) => {
                if let Some(field) = models_equal(cm, &m) {
                    rep.violation(&format!("c13:model-differs:{}", field), json!({"text": l.text}));
                }
            }
            Ok(Err(e)) => rep.violation("c13:model:relayout-rejected", json!({"text": l.text, "error": format!("{}", e)})),
            Err(p) => rep.violation(&format!("c13:model:{}", p.signature()), json!({"text": l.text})),
        }
    }
    rep.distinct(hash_str(&l.text));
    if sample {
        rep.sample(json!({"style": format!("{:?}", style), "text": l.text.chars().take(600).collect::<String>(), "tokens": l.toks.len()}));
    }
}

pub fn run(rep: &mut Report, tier: &str, seed: u64, shard: u64, nshards: u64) {
    rep.rule = "random modules x re-layouts by a token-level printer choosing separators from {space, tab, LF, CRLF, runs of spaces, '-- c\\n', '/* c */' spaced and attached, nested comments, comments containing '--', multi-line comments, empty where both neighbours are not word-like}; Tokenizer::parse(relayout) == R-lexer tokens (kind, content, line, column) and Model::try_from equal to the canonical layout's model. distinct = distinct re-layout texts whose tokens matched".into();
    let (nmod, per) = if tier == "quick" { (300 / nshards, 20) } else { (5000 / nshards, 20) };
    let cfg = GenCfg::front();
    let styles = [
        LayoutStyle::Mixed,
        LayoutStyle::Mixed,
        LayoutStyle::Mixed,
        LayoutStyle::OnlyBlockComments,
        LayoutStyle::CrLf,
        LayoutStyle::Minimal,
        LayoutStyle::WhitespaceOnly,
        LayoutStyle::SpacedComments,
        LayoutStyle::SpacedComments,
        LayoutStyle::WhitespaceOnly,
    ];
    for i in 0..nmod.max(1) {
        let mut rng = Rng::derive(seed, &["C13"], shard * 1_000_000 + i);
        let m = random_module(&mut rng, &cfg, shard * 1_000_000 + i);
        let items = lex_module(&m);
        let canonical = print_canonical(&items);
        let cm = guarded(|| Model::try_from(Tokenizer.parse(&canonical))).ok().and_then(|r| r.ok());
        if cm.is_none() {
            rep.hist("outcomes", "canonical-layout-rejected");
        }
        for k in 0..per {
            let style = styles[k % styles.len()];
            check_layout(rep, &items, &cm, style, &mut rng, i == 0 && k < 3);
        }
    }
    for k in SEPARATOR_KINDS {
        let c = rep.hist.get("separators").and_then(|h| h.get(*k)).copied().unwrap_or(0);
        rep.floor.insert(format!("separator:{}", k), c);
    }
}
