//! R-side resolution of value references (independent of /repo), R-tags, and resolved views used by R-PER.
use crate::schema::*;

fn resolve_bound(u: &Universe, mi: usize, b: &Bound) -> Result<Bound, String> {
    match b {
        Bound::Ref(name) => {
            let v = u
                .lookup_value(mi, name)
                .ok_or_else(|| format!("unresolved value reference {}", name))?;
            match &v.lit {
                Lit::Int(i) => Ok(Bound::Lit(*i)),
                other => Err(format!("value reference {} is not an integer: {:?}", name, other)),
            }
        }
        other => Ok(other.clone()),
    }
}

fn resolve_size(u: &Universe, mi: usize, s: &Size) -> Result<Size, String> {
    Ok(match s {
        Size::None => Size::None,
        Size::Fixed(b, e) => Size::Fixed(resolve_bound(u, mi, b)?, *e),
        Size::Range(a, b, e) => Size::Range(resolve_bound(u, mi, a)?, resolve_bound(u, mi, b)?, *e),
    })
}

fn resolve_comps(u: &Universe, mi: usize, c: &Comps) -> Result<Comps, String> {
    let f = |c: &Comp| -> Result<Comp, String> {
        Ok(Comp {
            name: c.name.clone(),
            tag: c.tag,
            ty: resolve_type(u, mi, &c.ty)?,
            presence: match &c.presence {
                Presence::Default(DefaultVal::Ref(name)) => {
                    let v = u
                        .lookup_value(mi, name)
                        .ok_or_else(|| format!("unresolved default reference {}", name))?;
                    Presence::Default(DefaultVal::Lit(v.lit.clone()))
                }
                other => other.clone(),
            },
        })
    };
    Ok(Comps {
        root: c.root.iter().map(f).collect::<Result<_, _>>()?,
        ext: match &c.ext {
            None => None,
            Some(e) => Some(e.iter().map(f).collect::<Result<_, _>>()?),
        },
    })
}

pub fn resolve_type(u: &Universe, mi: usize, t: &Type) -> Result<Type, String> {
    Ok(match t {
        Type::Integer { c, named } => Type::Integer {
            c: match c {
                None => None,
                Some(c) => Some(IntC {
                    lo: resolve_bound(u, mi, &c.lo)?,
                    hi: resolve_bound(u, mi, &c.hi)?,
                    ext: c.ext,
                }),
            },
            named: named.clone(),
        },
        Type::BitString { size, named } => {
            Type::BitString { size: resolve_size(u, mi, size)?, named: named.clone() }
        }
        Type::OctetString { size } => Type::OctetString { size: resolve_size(u, mi, size)? },
        Type::CharString { cs, size } => {
            Type::CharString { cs: *cs, size: resolve_size(u, mi, size)? }
        }
        Type::Sequence(c) => Type::Sequence(resolve_comps(u, mi, c)?),
        Type::Set(c) => Type::Set(resolve_comps(u, mi, c)?),
        Type::SequenceOf { elem, size } => Type::SequenceOf {
            elem: Box::new(resolve_type(u, mi, elem)?),
            size: resolve_size(u, mi, size)?,
        },
        Type::SetOf { elem, size } => Type::SetOf {
            elem: Box::new(resolve_type(u, mi, elem)?),
            size: resolve_size(u, mi, size)?,
        },
        Type::Choice { root, ext } => {
            let f = |a: &Alt| -> Result<Alt, String> {
                Ok(Alt { name: a.name.clone(), tag: a.tag, ty: resolve_type(u, mi, &a.ty)? })
            };
            Type::Choice {
                root: root.iter().map(f).collect::<Result<_, _>>()?,
                ext: match ext {
                    None => None,
                    Some(e) => Some(e.iter().map(f).collect::<Result<_, _>>()?),
                },
            }
        }
        Type::Ref(name) => {
            if u.lookup_def(mi, name).is_none() {
                return Err(format!("unresolved type reference {}", name));
            }
            Type::Ref(name.clone())
        }
        other => other.clone(),
    })
}

/// Replace every value reference by the literal it names (own module first, then imports).
pub fn resolve_universe(u: &Universe) -> Result<Universe, String> {
    let mut out = u.clone();
    for (mi, m) in u.modules.iter().enumerate() {
        for (di, d) in m.defs.iter().enumerate() {
            out.modules[mi].defs[di].ty = resolve_type(u, mi, &d.ty)?;
        }
    }
    Ok(out)
}

// ---------------------------------------------------------------------------------------------
// resolved views

#[derive(Clone, Copy, Debug, PartialEq, Eq, Hash)]
pub enum IntRoot {
    Unconstrained,
    /// lb..ub both finite
    Constrained(i128, i128),
    /// lb..MAX
    Semi(i128),
    /// MIN..ub  (PER: unconstrained, the upper bound is not used by the encoding)
    UpperOnly(i128),
}

pub fn int_root(c: &Option<IntC>) -> (IntRoot, bool) {
    match c {
        None => (IntRoot::Unconstrained, false),
        Some(c) => {
            let lo = match &c.lo {
                Bound::Lit(v) => Some(*v),
                Bound::Min => None,
                Bound::Max => None, // not generated
                Bound::Ref(_) => panic!("unresolved"),
            };
            let hi = match &c.hi {
                Bound::Lit(v) => Some(*v),
                Bound::Max => None,
                Bound::Min => None,
                Bound::Ref(_) => panic!("unresolved"),
            };
            let r = match (lo, hi) {
                (Some(a), Some(b)) => IntRoot::Constrained(a, b),
                (Some(a), None) => IntRoot::Semi(a),
                (None, Some(b)) => IntRoot::UpperOnly(b),
                (None, None) => IntRoot::Unconstrained,
            };
            (r, c.ext)
        }
    }
}

pub fn in_int_root(r: IntRoot, v: i128) -> bool {
    match r {
        IntRoot::Unconstrained => true,
        IntRoot::Constrained(a, b) => v >= a && v <= b,
        IntRoot::Semi(a) => v >= a,
        IntRoot::UpperOnly(b) => v <= b,
    }
}

// ---------------------------------------------------------------------------------------------
// R-tags

pub fn universal_tag(t: &Type) -> Option<Tag> {
    Some(Tag::u(match t {
        Type::Boolean => 1,
        Type::Integer { .. } => 2,
        Type::BitString { .. } => 3,
        Type::OctetString { .. } => 4,
        Type::Null => 5,
        Type::Enumerated { .. } => 10,
        Type::CharString { cs, .. } => cs.universal_tag(),
        Type::Sequence(_) | Type::SequenceOf { .. } => 16,
        Type::Set(_) | Type::SetOf { .. } => 17,
        Type::Choice { .. } | Type::Ref(_) => return None,
    }))
}

/// The tag that X.680 gives a (possibly referenced) type when it is not tagged at its use site.
/// An untagged CHOICE has no tag of its own; for ordering purposes X.691 uses its smallest root tag.
pub fn type_tag(u: &Universe, mi: usize, t: &Type, depth: usize) -> Tag {
    if depth > 32 {
        return Tag::u(0);
    }
    match t {
        Type::Ref(name) => match u.lookup_def(mi, name) {
            Some((dmi, d)) => match d.tag {
                Some(tag) => tag,
                None => type_tag(u, dmi, &d.ty, depth + 1),
            },
            None => Tag::u(0),
        },
        Type::Choice { root, ext } => {
            let tags = alt_tags(u, mi, root, ext.as_deref().unwrap_or(&[]), depth + 1);
            tags[..root.len()].iter().copied().min().unwrap_or(Tag::u(0))
        }
        other => universal_tag(other).unwrap(),
    }
}

/// Effective tags of the components of a SEQUENCE/SET (root first, then additions):
/// automatic context tags 0..n-1 iff no component is tagged, else explicit tag or the type's tag.
pub fn comp_tags(u: &Universe, mi: usize, c: &Comps) -> Vec<Tag> {
    let any_tagged = c.all().any(|c| c.tag.is_some());
    c.all()
        .enumerate()
        .map(|(i, comp)| {
            if !any_tagged {
                Tag::ctx(i as u64)
            } else {
                comp.tag.unwrap_or_else(|| type_tag(u, mi, &comp.ty, 0))
            }
        })
        .collect()
}

pub fn alt_tags(u: &Universe, mi: usize, root: &[Alt], ext: &[Alt], depth: usize) -> Vec<Tag> {
    let any_tagged = root.iter().chain(ext.iter()).any(|a| a.tag.is_some());
    root.iter()
        .chain(ext.iter())
        .enumerate()
        .map(|(i, a)| {
            if !any_tagged {
                Tag::ctx(i as u64)
            } else {
                a.tag.unwrap_or_else(|| type_tag(u, mi, &a.ty, depth))
            }
        })
        .collect()
}

/// canonical (X.680 8.6) order of the root components of a SET: indices into comps.root
pub fn set_root_order(u: &Universe, mi: usize, c: &Comps) -> Vec<usize> {
    let tags = comp_tags(u, mi, c);
    let mut idx: Vec<usize> = (0..c.root.len()).collect();
    idx.sort_by_key(|i| tags[*i]);
    idx
}

/// canonical order of the root alternatives of a CHOICE: position k holds the textual index of the
/// alternative with PER index k.
pub fn choice_root_order(u: &Universe, mi: usize, root: &[Alt], ext: &[Alt]) -> Vec<usize> {
    let tags = alt_tags(u, mi, root, ext, 0);
    let mut idx: Vec<usize> = (0..root.len()).collect();
    idx.sort_by_key(|i| tags[*i]);
    idx
}

/// Enumeration numbers of the root items (X.680 20): explicit, else the smallest unused from 0 upward in order.
pub fn enum_root_numbers(root: &[EnumItem]) -> Vec<i64> {
    let used: Vec<i64> = root.iter().filter_map(|i| i.num).collect();
    let mut next = 0i64;
    root.iter()
        .map(|i| match i.num {
            Some(n) => n,
            None => {
                while used.contains(&next) {
                    next += 1;
                }
                next += 1;
                next - 1
            }
        })
        .collect()
}

/// position k holds the textual index of the root item with PER index k
pub fn enum_root_order(root: &[EnumItem]) -> Vec<usize> {
    let nums = enum_root_numbers(root);
    let mut idx: Vec<usize> = (0..root.len()).collect();
    idx.sort_by_key(|i| nums[*i]);
    idx
}
