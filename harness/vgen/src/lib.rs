//! vgen: generators, printers and reference models. No dependency on /repo.
pub mod bits;
pub mod gen;
pub mod per;
pub mod print;
pub mod proto;
pub mod resolve;
pub mod rng;
pub mod schema;
pub mod valgen;
pub mod value;
