//! Boundary-biased value generator over resolved schemas.
use crate::resolve::*;
use crate::rng::Rng;
use crate::schema::*;
use crate::value::Val;

pub const LARGE_SIZES: &[u64] = &[16383, 16384, 16385, 32768, 49152, 65535, 65536, 65537, 81920, 100_000, 200_000];

pub struct ValGen<'a> {
    pub u: &'a Universe,
    pub rng: &'a mut Rng,
    /// allow sizes >= 16K for leaf-element lists and strings
    pub large: bool,
    /// probability (x/16) of choosing an out-of-root value/size for extensible constraints
    pub ext_bias: u64,
    /// probability (x/16) of picking the default value for DEFAULT components
    pub default_bias: u64,
}

/// Values the generated Rust type can hold according to asn1rs's documented mapping (profile, section 4).
pub fn representable_range(c: &Option<IntC>) -> (i128, i128) {
    let (root, ext) = int_root(c);
    match root {
        IntRoot::Unconstrained | IntRoot::UpperOnly(_) => (0, i64::MAX as i128),
        IntRoot::Semi(a) => (a, i64::MAX as i128),
        IntRoot::Constrained(a, b) => {
            if ext {
                if a >= 0 {
                    (0, i64::MAX as i128)
                } else {
                    (i64::MIN as i128, i64::MAX as i128)
                }
            } else {
                (a, b)
            }
        }
    }
}

impl<'a> ValGen<'a> {
    pub fn new(u: &'a Universe, rng: &'a mut Rng) -> Self {
        ValGen { u, rng, large: false, ext_bias: 4, default_bias: 5 }
    }

    pub fn gen_def(&mut self, mi: usize, name: &str, budget: usize) -> Val {
        self.gen(mi, &Type::Ref(name.to_string()), budget)
    }

    pub fn gen_int(&mut self, c: &Option<IntC>) -> i128 {
        let (root, ext) = int_root(c);
        let (rlo, rhi) = representable_range(c);
        let (lo, hi) = match root {
            IntRoot::Constrained(a, b) => (a, b),
            IntRoot::Semi(a) => (a, rhi),
            IntRoot::UpperOnly(b) => (rlo, b.min(rhi)),
            IntRoot::Unconstrained => (rlo, rhi),
        };
        if ext && self.rng.below(16) < self.ext_bias {
            // out of root, representable
            let mut cands: Vec<i128> = vec![lo - 1, hi + 1, lo - 2, hi + 2, hi + 128, hi + 65536, lo - 129, rlo, rhi, 0, -1];
            cands.push(self.rng.range_i128(rlo, rhi));
            cands.retain(|v| *v >= rlo && *v <= rhi && (*v < lo || *v > hi));
            if !cands.is_empty() {
                return *self.rng.pick(&cands);
            }
        }
        if lo > hi {
            return lo;
        }
        let mut cands: Vec<i128> = vec![lo, hi, lo + 1, hi - 1, 0, 1, -1, 127, 128, 255, 256, 65535, 65536, -128, -129];
        let k = self.rng.range(1, 62) as u32;
        cands.push((1i128 << k) - 1);
        cands.push(1i128 << k);
        cands.push(-(1i128 << k));
        cands.push(-(1i128 << k) - 1);
        cands.push(lo + (1i128 << k).min(hi - lo));
        cands.retain(|v| *v >= lo && *v <= hi);
        if self.rng.chance(1, 3) || cands.is_empty() {
            self.rng.range_i128(lo, hi)
        } else {
            *self.rng.pick(&cands)
        }
    }

    /// choose a length for a sized type; `unit_cost` = rough node cost of one item
    pub fn gen_len(&mut self, size: &Size, budget: usize, unit_cost: usize, leaf_items: bool) -> usize {
        let cap = (budget / unit_cost.max(1)).max(1) as u64;
        let bounds = size.bounds();
        let (lb, ub) = match bounds {
            None => (0u64, u64::MAX),
            Some((lb, ub)) => (lb, ub.unwrap_or(u64::MAX)),
        };
        if size.ext() && self.rng.below(16) < self.ext_bias {
            let mut cands = vec![];
            if lb > 0 {
                cands.push(lb - 1);
                cands.push(0);
            }
            if ub < u64::MAX {
                cands.push(ub + 1);
                cands.push(ub + 2);
                cands.push(ub + 130);
            }
            // outside the root the general length form applies: fragment boundaries matter there as well
            let big = self.large && leaf_items;
            if big {
                cands.extend(LARGE_SIZES.iter().copied());
            }
            cands.retain(|n| (*n <= cap.max(ub.saturating_add(2)).min(300_000) || (big && *n <= 200_000)) && (*n < lb || *n > ub));
            if !cands.is_empty() {
                return *self.rng.pick(&cands) as usize;
            }
        }
        if lb == ub {
            return lb as usize;
        }
        let mut cands: Vec<u64> = vec![lb, lb + 1, lb + 2, ub, ub.saturating_sub(1), 0, 1, 2, 3, 127, 128, 129, 255, 256];
        if self.large && leaf_items && self.rng.chance(1, 3) {
            cands = LARGE_SIZES.to_vec();
            cands.push(ub);
            cands.push(ub.saturating_sub(1));
        }
        let hard_cap = if self.large && leaf_items { 200_000 } else { cap.max(lb) };
        cands.retain(|n| *n >= lb && *n <= ub && *n <= hard_cap);
        if cands.is_empty() || self.rng.chance(1, 3) {
            let hi = ub.min(lb.saturating_add(8)).min(hard_cap.max(lb));
            return self.rng.range(lb, hi) as usize;
        }
        *self.rng.pick(&cands) as usize
    }

    pub fn gen_string(&mut self, cs: Charset, n: usize) -> String {
        let alpha = cs.alphabet();
        (0..n).map(|_| *self.rng.pick(&alpha)).collect()
    }

    pub fn gen(&mut self, mi: usize, t: &Type, budget: usize) -> Val {
        match t {
            Type::Ref(name) => {
                let (dmi, d) = self.u.lookup_def(mi, name).expect("resolved");
                let ty = d.ty.clone();
                self.gen(dmi, &ty, budget)
            }
            Type::Boolean => Val::Bool(self.rng.bool()),
            Type::Null => Val::Null,
            Type::Integer { c, .. } => Val::Int(self.gen_int(c)),
            Type::Enumerated { root, ext } => {
                let n = root.len() + ext.as_ref().map(|e| e.len()).unwrap_or(0);
                let mut idx = match self.rng.below(4) {
                    0 => 0,
                    1 => n - 1,
                    2 => root.len() - 1,
                    _ => self.rng.usize_below(n),
                };
                // normally-small numbers change form at 64
                if n - root.len() > 64 && self.rng.chance(1, 3) {
                    idx = root.len() + *self.rng.pick(&[62usize, 63, 64, 65]).min(&(n - root.len() - 1));
                }
                Val::Enum(idx)
            }
            Type::BitString { size, .. } => {
                let n = self.gen_len(size, budget * 8, 1, true);
                let style = self.rng.below(4);
                Val::Bits(
                    (0..n)
                        .map(|i| match style {
                            0 => true,
                            1 => false,
                            2 => i % 3 == 0,
                            _ => self.rng.bool(),
                        })
                        .collect(),
                )
            }
            Type::OctetString { size } => {
                let n = self.gen_len(size, budget * 4, 1, true);
                Val::Bytes(self.rng.bytes(n))
            }
            Type::CharString { cs, size } => {
                // UTF8String: the size constraint counts characters
                let n = self.gen_len(size, budget * 4, 1, true);
                Val::Str(self.gen_string(*cs, n))
            }
            Type::Sequence(c) | Type::Set(c) => {
                let nroot = c.root.len();
                let per = budget / c.len().max(1);
                let ext_present = self.rng.chance(2, 3);
                let mut vals = Vec::with_capacity(c.len());
                let mut first_add_absent = false;
                for (i, comp) in c.all().enumerate() {
                    let is_add = i >= nroot;
                    let v = match &comp.presence {
                        Presence::Mandatory if !is_add => Some(self.gen(mi, &comp.ty, per)),
                        Presence::Mandatory | Presence::Optional => {
                            let p = if is_add { ext_present && self.rng.chance(2, 3) } else { self.rng.bool() };
                            if p {
                                Some(self.gen(mi, &comp.ty, per))
                            } else {
                                None
                            }
                        }
                        Presence::Default(DefaultVal::Lit(l)) => {
                            if self.rng.below(16) < self.default_bias || (is_add && !ext_present) {
                                Some(crate::per::lit_to_val(self.u, mi, &comp.ty, l).expect("default literal"))
                            } else {
                                Some(self.gen(mi, &comp.ty, per))
                            }
                        }
                        Presence::Default(DefaultVal::Ref(_)) => panic!("unresolved default"),
                    };
                    if is_add && i == nroot && v.is_none() {
                        first_add_absent = true;
                    }
                    vals.push(v);
                }
                let _ = first_add_absent;
                Val::Seq(vals)
            }
            Type::SequenceOf { elem, size } | Type::SetOf { elem, size } => {
                let w = crate::gen::type_weight(elem);
                let leaf = w <= 1;
                let n = self.gen_len(size, budget, w, leaf);
                let per = (budget / n.max(1)).max(1);
                Val::List((0..n).map(|_| self.gen(mi, elem, per)).collect())
            }
            Type::Choice { root, ext } => {
                let n = root.len() + ext.as_ref().map(|e| e.len()).unwrap_or(0);
                let idx = if n - root.len() > 64 && self.rng.chance(1, 3) {
                    root.len() + *self.rng.pick(&[62usize, 63, 64, 65]).min(&(n - root.len() - 1))
                } else if ext.is_some() && n > root.len() && self.rng.below(16) < self.ext_bias {
                    root.len() + self.rng.usize_below(n - root.len())
                } else {
                    self.rng.usize_below(root.len())
                };
                let alt = if idx < root.len() { &root[idx] } else { &ext.as_ref().unwrap()[idx - root.len()] };
                Val::Choice(idx, Box::new(self.gen(mi, &alt.ty, budget)))
            }
        }
    }
}
