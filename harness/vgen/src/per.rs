//! R-PER: unaligned BASIC-PER reference encoder and decoder over (Type, Val), written from X.691 (2015).
//! Shares no code with /repo. See DESIGN.md Appendix A for the rules.
//!
//! Deviation models (DESIGN.md 7): alternative right-hand sides of single rules, selected per known
//! finding. With every switch off the encoder is plain X.691.
use crate::bits::*;
use crate::resolve::*;
use crate::schema::*;
use crate::value::Val;
use serde::{Deserialize, Serialize};
use std::collections::BTreeSet;

#[derive(Clone, Debug, Default, PartialEq, Eq, Serialize, Deserialize)]
pub struct Deviations {
    /// INTEGER (lb..MAX), lb != 0: encoded as constrained whole number lb..2^63-1 (63-bit field)
    pub int_semi_as_constrained_i64max: bool,
    /// INTEGER (0..MAX): encoded as unconstrained (2's complement) instead of semi-constrained
    pub int_zero_max_as_unconstrained: bool,
    /// INTEGER (MIN..ub): encoded as constrained whole number 0..ub
    pub int_upper_only_as_zero_based: bool,
    /// ENUMERATED root index = textual position instead of rank of the enumeration value
    pub enum_index_textual: bool,
    /// CHOICE root index = textual position instead of canonical tag order
    pub choice_index_textual: bool,
    /// SET extension additions sorted by tag instead of definition order
    pub set_additions_sorted: bool,
    /// length determinants with ub >= 64K or MAX (but a constraint present) are encoded as a constrained
    /// whole number over lb..min(ub, 2^63-1) instead of the general (fragmentable) length form
    pub len_large_ub_as_constrained: bool,
    /// empty open type encoded with length 0 instead of one zero octet
    pub open_type_empty_len0: bool,
    /// DEFAULT extension additions are not wrapped as open types
    pub default_addition_inline: bool,
    /// extensible INTEGER whose root has an open end ((0..MAX,...), (MIN..MAX,...), (lb..MAX,...), (MIN..ub,...)):
    /// the root is treated as lb-or-0 .. ub-or-2^63-1 and encoded as constrained whole number
    pub int_ext_open_root_as_constrained: bool,
}

pub const ALL_CLASSES: &[&str] = &[
    "int-semi",
    "int-zero-max",
    "int-upper-only",
    "enum-nonascending",
    "choice-noncanonical",
    "set-additions-unsorted",
    "len-large-ub",
    "open-empty",
    "default-addition",
    "int-ext-open-root",
];

impl Deviations {
    pub fn set(&mut self, class: &str, on: bool) -> bool {
        match class {
            "int-semi" => self.int_semi_as_constrained_i64max = on,
            "int-zero-max" => self.int_zero_max_as_unconstrained = on,
            "int-upper-only" => self.int_upper_only_as_zero_based = on,
            "enum-nonascending" => self.enum_index_textual = on,
            "choice-noncanonical" => self.choice_index_textual = on,
            "set-additions-unsorted" => self.set_additions_sorted = on,
            "len-large-ub" => self.len_large_ub_as_constrained = on,
            "open-empty" => self.open_type_empty_len0 = on,
            "default-addition" => self.default_addition_inline = on,
            "int-ext-open-root" => self.int_ext_open_root_as_constrained = on,
            _ => return false,
        }
        true
    }
}

// ---------------------------------------------------------------------------------------------
// primitives (also R-prim for C10)

/// number of bits of a constrained whole number with `r` values (11.5.6, unaligned: minimal)
pub fn width_for_range(r: u128) -> u32 {
    if r <= 1 {
        0
    } else {
        128 - (r - 1).leading_zeros()
    }
}

pub fn cwn(out: &mut BitOut, lb: i128, ub: i128, n: i128) {
    let r = (ub - lb) as u128 + 1;
    out.push_uint((n - lb) as u128, width_for_range(r));
}

/// 11.3: minimum octets, at least one
pub fn uint_octets(n: u128) -> Vec<u8> {
    let mut v = n.to_be_bytes().to_vec();
    while v.len() > 1 && v[0] == 0 {
        v.remove(0);
    }
    v
}

/// 11.4: 2's complement, minimum octets
pub fn sint_octets(n: i128) -> Vec<u8> {
    let mut v = n.to_be_bytes().to_vec();
    while v.len() > 1
        && ((v[0] == 0 && v[1] & 0x80 == 0) || (v[0] == 0xFF && v[1] & 0x80 != 0))
    {
        v.remove(0);
    }
    v
}

/// 11.9.3.6/7 (n < 16384)
pub fn lenu(out: &mut BitOut, n: usize) {
    assert!(n < 16384);
    if n <= 127 {
        out.push(false);
        out.push_uint(n as u128, 7);
    } else {
        out.push(true);
        out.push(false);
        out.push_uint(n as u128, 14);
    }
}

/// 11.9.3.8: general length with fragmentation; `item` appends item i.
pub fn frag(out: &mut BitOut, n: usize, item: &mut dyn FnMut(&mut BitOut, usize)) {
    let mut done = 0usize;
    loop {
        let r = n - done;
        if r < 16384 {
            lenu(out, r);
            for i in done..n {
                item(out, i);
            }
            return;
        }
        let m = (r / 16384).min(4);
        out.push(true);
        out.push(true);
        out.push_uint(m as u128, 6);
        for i in done..done + m * 16384 {
            item(out, i);
        }
        done += m * 16384;
    }
}

pub fn semi(out: &mut BitOut, lb: i128, n: i128) {
    let o = uint_octets((n - lb) as u128);
    frag(out, o.len(), &mut |out, i| out.push_uint(o[i] as u128, 8));
}

pub fn unc(out: &mut BitOut, n: i128) {
    let o = sint_octets(n);
    frag(out, o.len(), &mut |out, i| out.push_uint(o[i] as u128, 8));
}

/// 11.6 normally small non-negative whole number
pub fn nsnn(out: &mut BitOut, n: u128) {
    if n <= 63 {
        out.push(false);
        out.push_uint(n, 6);
    } else {
        out.push(true);
        semi(out, 0, n as i128);
    }
}

/// 11.9.3.4 normally small length (1 <= n <= 64 inside the profile; above: 1 bit + general length)
pub fn nsl(out: &mut BitOut, n: usize) {
    if (1..=64).contains(&n) {
        out.push(false);
        out.push_uint((n - 1) as u128, 6);
    } else {
        out.push(true);
        frag(out, n, &mut |_, _| {});
    }
}

/// 11.9.4 with effective size constraint (lb, ub); None = unconstrained
pub fn len_items(
    out: &mut BitOut,
    bounds: Option<(u64, Option<u64>)>,
    n: usize,
    item: &mut dyn FnMut(&mut BitOut, usize),
    dev_large_ub: bool,
) {
    match bounds {
        Some((lb, Some(ub))) if ub < 65536 => {
            if lb != ub {
                cwn(out, lb as i128, ub as i128, n as i128);
            }
            for i in 0..n {
                item(out, i);
            }
        }
        Some((lb, ub)) if dev_large_ub => {
            // deviation model "len-large-ub": constrained whole number over lb..min(ub, i64::MAX)
            let ub = ub.unwrap_or(i64::MAX as u64).min(i64::MAX as u64);
            if lb != ub {
                cwn(out, lb as i128, ub as i128, n as i128);
            }
            for i in 0..n {
                item(out, i);
            }
        }
        _ => frag(out, n, item),
    }
}

pub fn sized(
    out: &mut BitOut,
    size: &Size,
    n: usize,
    item: &mut dyn FnMut(&mut BitOut, usize),
    dev_large_ub: bool,
) -> Result<(), String> {
    let bounds = size.bounds();
    let in_root = match bounds {
        None => true,
        Some((lb, ub)) => n as u64 >= lb && ub.map(|ub| n as u64 <= ub).unwrap_or(true),
    };
    if size.ext() {
        out.push(!in_root);
        if in_root {
            len_items(out, bounds, n, item, dev_large_ub);
        } else {
            frag(out, n, item);
        }
    } else {
        if !in_root {
            return Err(format!("size {} outside {:?}", n, bounds));
        }
        len_items(out, bounds, n, item, dev_large_ub);
    }
    Ok(())
}

/// 11.2: open type = encoding padded to octets (empty -> one zero octet) as general-length octets
pub fn open(out: &mut BitOut, inner: &BitOut, dev_empty_len0: bool) {
    let mut o = inner.to_bytes();
    if o.is_empty() && !dev_empty_len0 {
        o.push(0);
    }
    frag(out, o.len(), &mut |out, i| out.push_uint(o[i] as u128, 8));
}

pub fn char_code(cs: Charset, c: char) -> Result<(u128, u32), String> {
    if !cs.is_legal(c) {
        return Err(format!("illegal character {:?} for {:?}", c, cs));
    }
    Ok(match cs {
        Charset::Numeric => (if c == ' ' { 0 } else { c as u128 - '0' as u128 + 1 }, 4),
        Charset::Ia5 | Charset::Printable | Charset::Visible => (c as u128, 7),
        Charset::Utf8 => unreachable!(),
    })
}

pub fn lit_to_val(u: &Universe, mi: usize, t: &Type, lit: &Lit) -> Result<Val, String> {
    match t {
        Type::Ref(name) => {
            let (dmi, d) = u.lookup_def(mi, name).ok_or("unresolved ref")?;
            lit_to_val(u, dmi, &d.ty, lit)
        }
        Type::Enumerated { root, ext } => match lit {
            Lit::EnumItem(name) => root
                .iter()
                .chain(ext.iter().flatten())
                .position(|i| &i.name == name)
                .map(Val::Enum)
                .ok_or_else(|| format!("no enum item {}", name)),
            _ => Err("bad enum default".into()),
        },
        Type::BitString { .. } => match lit {
            Lit::Bin(b) => Ok(Val::Bits(b.clone())),
            Lit::Hex(h) => Ok(Val::Bits(bytes_to_bools(h, h.len() * 8))),
            _ => Err("bad bit string default".into()),
        },
        Type::OctetString { .. } => match lit {
            Lit::Hex(h) => Ok(Val::Bytes(h.clone())),
            Lit::Bin(b) => Ok(Val::Bytes(bools_to_bytes(b))),
            _ => Err("bad octet string default".into()),
        },
        _ => match lit {
            Lit::Bool(b) => Ok(Val::Bool(*b)),
            Lit::Int(i) => Ok(Val::Int(*i)),
            Lit::Str(s) => Ok(Val::Str(s.clone())),
            other => Err(format!("unsupported default literal {:?} for {}", other, t.kind_name())),
        },
    }
}

// ---------------------------------------------------------------------------------------------
// typed encoder

pub struct Enc<'a> {
    pub u: &'a Universe,
    pub dev: Deviations,
    /// deviation-capable rule classes that were applicable to this (type, value)
    pub classes: BTreeSet<&'static str>,
    /// constraint classes of the profile that this (type, value) exercised (C02 coverage floor)
    pub cells: BTreeSet<String>,
}

pub fn range_class(r: u128) -> &'static str {
    match r {
        1 => "1",
        2 => "2",
        3..=255 => "3-255",
        256 => "256",
        257..=65535 => "257-65535",
        65536 => "65536",
        _ if r < (1u128 << 32) => ">65536",
        _ if r < (1u128 << 62) => ">=2^32",
        _ => ">=2^62",
    }
}

pub fn size_class(size: &Size, n: usize) -> String {
    let form = match size.bounds() {
        None => "unconstrained".to_string(),
        Some((lb, Some(ub))) if lb == ub => format!("fixed{}", if ub <= 16 { "<=16" } else if ub < 65536 { "<64K" } else { ">=64K" }),
        Some((_, Some(ub))) => format!("range-ub{}", if ub < 65536 { "<64K" } else { ">=64K" }),
        Some((_, None)) => "semi".to_string(),
    };
    let in_root = match size.bounds() {
        None => true,
        Some((lb, ub)) => n as u64 >= lb && ub.map(|u| n as u64 <= u).unwrap_or(true),
    };
    let len = match n {
        0 => "0",
        1..=127 => "<128",
        128..=16383 => "<16K",
        _ => ">=16K",
    };
    format!("{}{}:len{}", form, if size.ext() { if in_root { ":ext-in-root" } else { ":ext-out-of-root" } } else { "" }, len)
}

impl<'a> Enc<'a> {
    pub fn new(u: &'a Universe, dev: Deviations) -> Self {
        Enc { u, dev, classes: BTreeSet::new(), cells: BTreeSet::new() }
    }

    pub fn encode_def(&mut self, mi: usize, name: &str, v: &Val) -> Result<BitOut, String> {
        let mut out = BitOut::new();
        self.encode(mi, &Type::Ref(name.to_string()), v, &mut out)?;
        Ok(out)
    }

    pub fn encode(&mut self, mi: usize, t: &Type, v: &Val, out: &mut BitOut) -> Result<(), String> {
        match (t, v) {
            (Type::Ref(name), _) => {
                let (dmi, d) = self
                    .u
                    .lookup_def(mi, name)
                    .ok_or_else(|| format!("unresolved type {}", name))?;
                let ty = d.ty.clone();
                self.encode(dmi, &ty, v, out)
            }
            (Type::Boolean, Val::Bool(b)) => {
                out.push(*b);
                Ok(())
            }
            (Type::Null, Val::Null) => Ok(()),
            (Type::Integer { c, .. }, Val::Int(n)) => self.encode_int(c, *n, out),
            (Type::Enumerated { root, ext }, Val::Enum(idx)) => {
                if *idx < root.len() {
                    let order = enum_root_order(root);
                    if order.iter().enumerate().any(|(k, i)| k != *i) {
                        self.classes.insert("enum-nonascending");
                    }
                    let per_idx = if self.dev.enum_index_textual {
                        *idx
                    } else {
                        order.iter().position(|i| i == idx).unwrap()
                    };
                    if ext.is_some() {
                        out.push(false);
                    }
                    self.cells.insert(format!("enumerated:root-items-{}{}", range_class(root.len() as u128), if ext.is_some() { ":ext" } else { "" }));
                    cwn(out, 0, root.len() as i128 - 1, per_idx as i128);
                    Ok(())
                } else {
                    let e = ext.as_ref().ok_or("enum index out of range")?;
                    self.cells.insert(format!("enumerated:addition-index{}", if idx - root.len() < 64 { "<64" } else { ">=64" }));
                    let k = idx - root.len();
                    if k >= e.len() {
                        return Err("enum index out of range".into());
                    }
                    out.push(true);
                    nsnn(out, k as u128);
                    Ok(())
                }
            }
            (Type::BitString { size, .. }, Val::Bits(b)) => {
                self.cells.insert(format!("bitstring:{}", size_class(size, b.len())));
                self.note_len_class(size);
                sized(out, size, b.len(), &mut |o, i| o.push(b[i]), self.dev.len_large_ub_as_constrained)
            }
            (Type::OctetString { size }, Val::Bytes(b)) => {
                self.cells.insert(format!("octetstring:{}", size_class(size, b.len())));
                self.note_len_class(size);
                sized(
                    out,
                    size,
                    b.len(),
                    &mut |o, i| o.push_uint(b[i] as u128, 8),
                    self.dev.len_large_ub_as_constrained,
                )
            }
            (Type::CharString { cs: Charset::Utf8, .. }, Val::Str(s)) => {
                let b = s.as_bytes();
                self.cells.insert(format!("utf8string:{}", size_class(&Size::None, b.len())));
                frag(out, b.len(), &mut |o, i| o.push_uint(b[i] as u128, 8));
                Ok(())
            }
            (Type::CharString { cs, size }, Val::Str(s)) => {
                let mut codes = Vec::with_capacity(s.len());
                for c in s.chars() {
                    codes.push(char_code(*cs, c)?);
                }
                self.cells.insert(format!("{}:{}", cs.asn_name(), size_class(size, codes.len())));
                self.note_len_class(size);
                sized(
                    out,
                    size,
                    codes.len(),
                    &mut |o, i| o.push_uint(codes[i].0, codes[i].1),
                    self.dev.len_large_ub_as_constrained,
                )
            }
            (Type::Sequence(c), Val::Seq(f)) => self.encode_seq(mi, c, f, false, out),
            (Type::Set(c), Val::Seq(f)) => self.encode_seq(mi, c, f, true, out),
            (Type::SequenceOf { elem, size }, Val::List(l)) | (Type::SetOf { elem, size }, Val::List(l)) => {
                let mut items = Vec::with_capacity(l.len());
                for e in l {
                    let mut o = BitOut::new();
                    self.encode(mi, elem, e, &mut o)?;
                    items.push(o.bits);
                }
                self.cells.insert(format!("list:{}", size_class(size, items.len())));
                self.note_len_class(size);
                sized(
                    out,
                    size,
                    items.len(),
                    &mut |o, i| o.extend(&items[i]),
                    self.dev.len_large_ub_as_constrained,
                )
            }
            (Type::Choice { root, ext }, Val::Choice(idx, inner)) => {
                let extv: &[Alt] = ext.as_deref().unwrap_or(&[]);
                if *idx < root.len() {
                    let order = choice_root_order(self.u, mi, root, extv);
                    if order.iter().enumerate().any(|(k, i)| k != *i) {
                        self.classes.insert("choice-noncanonical");
                    }
                    let per_idx = if self.dev.choice_index_textual {
                        *idx
                    } else {
                        order.iter().position(|i| i == idx).unwrap()
                    };
                    if ext.is_some() {
                        out.push(false);
                    }
                    self.cells.insert(format!("choice:root-alternatives-{}{}", range_class(root.len() as u128), if ext.is_some() { ":ext" } else { "" }));
                    cwn(out, 0, root.len() as i128 - 1, per_idx as i128);
                    self.encode(mi, &root[*idx].ty, inner, out)
                } else {
                    let k = idx - root.len();
                    if ext.is_none() || k >= extv.len() {
                        return Err("choice index out of range".into());
                    }
                    out.push(true);
                    nsnn(out, k as u128);
                    let mut o = BitOut::new();
                    self.encode(mi, &extv[k].ty, inner, &mut o)?;
                    self.cells.insert(format!("choice:addition:open-type-octets-{}", match (o.len() + 7) / 8 { 0 => "0", 1..=127 => "<128", _ => ">=128" }));
                    if o.is_empty() {
                        self.classes.insert("open-empty");
                    }
                    open(out, &o, self.dev.open_type_empty_len0);
                    Ok(())
                }
            }
            (t, v) => Err(format!("value kind {} does not fit type {}", v.kind(), t.kind_name())),
        }
    }

    fn note_len_class(&mut self, _size: &Size) {
        // "len-large-ub" was repaired in /repo (see known_findings.json, fixed); the rule switch is kept for the record
    }

    fn encode_int(&mut self, c: &Option<IntC>, n: i128, out: &mut BitOut) -> Result<(), String> {
        let (root, ext) = int_root(c);
        let in_root = in_int_root(root, n);
        if ext && !matches!(root, IntRoot::Constrained(..)) {
            self.classes.insert("int-ext-open-root");
            self.cells.insert("integer:ext-open-root".to_string());
            if self.dev.int_ext_open_root_as_constrained {
                let (lo, hi) = match root {
                    IntRoot::Semi(a) => (a, i64::MAX as i128),
                    IntRoot::UpperOnly(b) => (0, b),
                    _ => (0, i64::MAX as i128),
                };
                let inr = n >= lo && n <= hi;
                out.push(!inr);
                if inr {
                    if hi - lo > i64::MAX as i128 {
                        return Err("deviation-model:refused".into());
                    }
                    cwn(out, lo, hi, n);
                } else {
                    unc(out, n);
                }
                return Ok(());
            }
            out.push(!in_root);
            match (in_root, root) {
                (true, IntRoot::Semi(a)) => semi(out, a, n),
                _ => unc(out, n),
            }
            return Ok(());
        }
        if ext {
            out.push(!in_root);
            if !in_root {
                self.cells.insert("integer:ext-out-of-root".to_string());
                unc(out, n);
                return Ok(());
            }
        } else if !in_root {
            return Err(format!("integer {} outside {:?}", n, root));
        }
        self.cells.insert(match root {
            IntRoot::Unconstrained => "integer:unconstrained".to_string(),
            IntRoot::Constrained(a, b) => format!("integer:range-width-{}{}", range_class((b - a) as u128 + 1), if ext { ":ext-in-root" } else { "" }),
            IntRoot::Semi(_) => "integer:semi-constrained".to_string(),
            IntRoot::UpperOnly(_) => "integer:upper-bound-only".to_string(),
        });
        match root {
            IntRoot::Unconstrained => unc(out, n),
            // asn1rs stores an upper bound of i64::MAX as "no upper bound": (0..9223372036854775807) is (0..MAX) for it
            // and shares that recorded deviation ((lb..i64::MAX) with lb != 0 has the same bits either way)
            IntRoot::Constrained(0, b) if b == i64::MAX as i128 => {
                self.classes.insert("int-zero-max");
                if self.dev.int_zero_max_as_unconstrained {
                    unc(out, n)
                } else {
                    cwn(out, 0, b, n)
                }
            }
            IntRoot::Constrained(a, b) => cwn(out, a, b, n),
            IntRoot::Semi(0) => {
                self.classes.insert("int-zero-max");
                if self.dev.int_zero_max_as_unconstrained {
                    unc(out, n)
                } else {
                    semi(out, 0, n)
                }
            }
            IntRoot::Semi(a) => {
                self.classes.insert("int-semi");
                if self.dev.int_semi_as_constrained_i64max {
                    if i64::MAX as i128 - a > i64::MAX as i128 {
                        // the 63-bit constrained form cannot span a negative lower bound up to i64::MAX: asn1rs refuses
                        return Err("deviation-model:refused".into());
                    }
                    cwn(out, a, i64::MAX as i128, n)
                } else {
                    semi(out, a, n)
                }
            }
            // asn1rs stores an upper bound of i64::MAX as "no upper bound": (MIN..9223372036854775807) is plain unconstrained
            // for it, which is also what X.691 gives - no deviation, no class
            IntRoot::UpperOnly(b) if b == i64::MAX as i128 => unc(out, n),
            IntRoot::UpperOnly(b) => {
                self.classes.insert("int-upper-only");
                if self.dev.int_upper_only_as_zero_based {
                    if n < 0 || b < 0 {
                        return Err("deviation model cannot represent".into());
                    }
                    cwn(out, 0, b, n)
                } else {
                    unc(out, n)
                }
            }
        }
        Ok(())
    }

    pub fn is_default(&self, mi: usize, comp: &Comp, v: &Val) -> Result<bool, String> {
        match &comp.presence {
            Presence::Default(DefaultVal::Lit(l)) => Ok(&lit_to_val(self.u, mi, &comp.ty, l)? == v),
            Presence::Default(DefaultVal::Ref(_)) => Err("unresolved default".into()),
            _ => Ok(false),
        }
    }

    fn encode_seq(
        &mut self,
        mi: usize,
        c: &Comps,
        f: &[Option<Val>],
        is_set: bool,
        out: &mut BitOut,
    ) -> Result<(), String> {
        if f.len() != c.len() {
            return Err(format!("{} values for {} components", f.len(), c.len()));
        }
        let nroot = c.root.len();
        // which components are encoded as present
        let mut present = Vec::with_capacity(f.len());
        for (i, comp) in c.all().enumerate() {
            let p = match (&comp.presence, &f[i]) {
                (Presence::Mandatory, None) if i < nroot => {
                    return Err(format!("mandatory root component {} absent", comp.name))
                }
                (_, None) => false,
                (Presence::Default(_), Some(v)) => !self.is_default(mi, comp, v)?,
                (_, Some(_)) => true,
            };
            present.push(p);
        }
        let ext_present = present[nroot..].iter().any(|p| *p);
        if c.ext.is_some() {
            out.push(ext_present);
        }
        let root_order: Vec<usize> =
            if is_set { set_root_order(self.u, mi, c) } else { (0..nroot).collect() };
        for i in &root_order {
            if !matches!(c.root[*i].presence, Presence::Mandatory) {
                out.push(present[*i]);
            }
        }
        for i in &root_order {
            if present[*i] {
                self.encode(mi, &c.root[*i].ty, f[*i].as_ref().unwrap(), out)?;
            }
        }
        if ext_present {
            let adds = c.ext.as_ref().unwrap();
            if adds.len() > 64 {
                // DESIGN.md section 4: more than 64 extension additions are outside the conformance profile
                return Err("outside the profile: more than 64 extension additions".into());
            }
            let mut add_order: Vec<usize> = (0..adds.len()).collect();
            if is_set {
                let tags = comp_tags(self.u, mi, c);
                let mut sorted = add_order.clone();
                sorted.sort_by_key(|i| tags[nroot + *i]);
                if sorted != add_order {
                    self.classes.insert("set-additions-unsorted");
                    if self.dev.set_additions_sorted {
                        add_order = sorted;
                    }
                }
            }
            self.cells.insert(format!("sequence:additions-{}", match adds.len() { 1 => "1", 2..=8 => "2-8", _ => ">8" }));
            nsl(out, adds.len());
            for k in &add_order {
                out.push(present[nroot + *k]);
            }
            for k in &add_order {
                if present[nroot + *k] {
                    let mut o = BitOut::new();
                    self.encode(mi, &adds[*k].ty, f[nroot + *k].as_ref().unwrap(), &mut o)?;
                    if matches!(adds[*k].presence, Presence::Default(_)) {
                        self.classes.insert("default-addition");
                        if self.dev.default_addition_inline {
                            out.extend(&o.bits);
                            continue;
                        }
                    }
                    if o.is_empty() {
                        self.classes.insert("open-empty");
                    }
                    self.cells.insert(format!("sequence:addition:open-type-octets-{}", match (o.len() + 7) / 8 { 0 => "0", 1..=127 => "<128", _ => ">=128" }));
                    open(out, &o, self.dev.open_type_empty_len0);
                }
            }
        }
        Ok(())
    }
}

pub fn encode(u: &Universe, mi: usize, def: &str, v: &Val) -> Result<(BitOut, BTreeSet<&'static str>), String> {
    let mut e = Enc::new(u, Deviations::default());
    let out = e.encode_def(mi, def, v)?;
    Ok((out, e.classes))
}

pub fn encode_dev(u: &Universe, mi: usize, def: &str, v: &Val, dev: &Deviations) -> Result<BitOut, String> {
    let mut e = Enc::new(u, dev.clone());
    e.encode_def(mi, def, v)
}

// ---------------------------------------------------------------------------------------------
// typed decoder (plain X.691, no deviation models)

pub struct Dec<'a> {
    pub u: &'a Universe,
    /// guards against absurd allocations on corrupted input
    pub max_items: usize,
}

fn read_lenu_or_frag(inp: &mut BitIn) -> Result<(usize, bool), DecErr> {
    // returns (count, more_fragments_follow)
    if !inp.bit()? {
        Ok((inp.uint(7)? as usize, false))
    } else if !inp.bit()? {
        Ok((inp.uint(14)? as usize, false))
    } else {
        let m = inp.uint(6)? as usize;
        if m == 0 || m > 4 {
            return Err(DecErr::Malformed(format!("fragment multiplier {}", m)));
        }
        Ok((m * 16384, true))
    }
}

impl<'a> Dec<'a> {
    pub fn new(u: &'a Universe) -> Self {
        Dec { u, max_items: 1 << 22 }
    }

    fn frag_items<T>(
        &self,
        inp: &mut BitIn,
        item: &mut dyn FnMut(&mut BitIn) -> Result<T, DecErr>,
    ) -> Result<Vec<T>, DecErr> {
        let mut v = Vec::new();
        loop {
            let (n, more) = read_lenu_or_frag(inp)?;
            if v.len() + n > self.max_items {
                return Err(DecErr::Malformed("too many items".into()));
            }
            for _ in 0..n {
                v.push(item(inp)?);
            }
            if !more {
                return Ok(v);
            }
        }
    }

    fn len_items<T>(
        &self,
        inp: &mut BitIn,
        bounds: Option<(u64, Option<u64>)>,
        item: &mut dyn FnMut(&mut BitIn) -> Result<T, DecErr>,
    ) -> Result<Vec<T>, DecErr> {
        match bounds {
            Some((lb, Some(ub))) if ub < 65536 => {
                let n = if lb == ub {
                    lb as usize
                } else {
                    let w = width_for_range((ub - lb) as u128 + 1);
                    let n = lb as u128 + inp.uint(w)?;
                    if n > ub as u128 {
                        return Err(DecErr::Malformed("length above ub".into()));
                    }
                    n as usize
                };
                if n > self.max_items {
                    return Err(DecErr::Malformed("too many items".into()));
                }
                let mut v = Vec::with_capacity(n.min(65536));
                for _ in 0..n {
                    v.push(item(inp)?);
                }
                Ok(v)
            }
            _ => self.frag_items(inp, item),
        }
    }

    fn sized<T>(
        &self,
        inp: &mut BitIn,
        size: &Size,
        item: &mut dyn FnMut(&mut BitIn) -> Result<T, DecErr>,
    ) -> Result<Vec<T>, DecErr> {
        if size.ext() && inp.bit()? {
            self.frag_items(inp, item)
        } else {
            self.len_items(inp, size.bounds(), item)
        }
    }

    fn octets_general(&self, inp: &mut BitIn) -> Result<Vec<u8>, DecErr> {
        self.frag_items(inp, &mut |i| Ok(i.uint(8)? as u8))
    }

    fn unc(&self, inp: &mut BitIn) -> Result<i128, DecErr> {
        let o = self.octets_general(inp)?;
        if o.is_empty() || o.len() > 16 {
            return Err(DecErr::Malformed("integer octets".into()));
        }
        let mut v: i128 = if o[0] & 0x80 != 0 { -1 } else { 0 };
        for b in o {
            v = (v << 8) | b as i128;
        }
        Ok(v)
    }

    fn semi(&self, inp: &mut BitIn, lb: i128) -> Result<i128, DecErr> {
        let o = self.octets_general(inp)?;
        if o.is_empty() || o.len() > 15 {
            return Err(DecErr::Malformed("integer octets".into()));
        }
        let mut v: i128 = 0;
        for b in o {
            v = (v << 8) | b as i128;
        }
        Ok(v + lb)
    }

    fn nsnn(&self, inp: &mut BitIn) -> Result<u128, DecErr> {
        if !inp.bit()? {
            inp.uint(6)
        } else {
            Ok(self.semi(inp, 0)? as u128)
        }
    }

    fn open<'b>(&self, inp: &mut BitIn<'b>) -> Result<Vec<bool>, DecErr> {
        let o = self.octets_general(inp)?;
        Ok(bytes_to_bools(&o, o.len() * 8))
    }

    pub fn decode_def(&self, mi: usize, name: &str, inp: &mut BitIn) -> Result<Val, DecErr> {
        self.decode(mi, &Type::Ref(name.to_string()), inp)
    }

    pub fn decode(&self, mi: usize, t: &Type, inp: &mut BitIn) -> Result<Val, DecErr> {
        match t {
            Type::Ref(name) => {
                let (dmi, d) = self
                    .u
                    .lookup_def(mi, name)
                    .ok_or_else(|| DecErr::Malformed(format!("unresolved {}", name)))?;
                self.decode(dmi, &d.ty, inp)
            }
            Type::Boolean => Ok(Val::Bool(inp.bit()?)),
            Type::Null => Ok(Val::Null),
            Type::Integer { c, .. } => {
                let (root, ext) = int_root(c);
                if ext && inp.bit()? {
                    return Ok(Val::Int(self.unc(inp)?));
                }
                Ok(Val::Int(match root {
                    IntRoot::Unconstrained | IntRoot::UpperOnly(_) => self.unc(inp)?,
                    IntRoot::Constrained(a, b) => {
                        let w = width_for_range((b - a) as u128 + 1);
                        let n = a + inp.uint(w)? as i128;
                        if n > b {
                            return Err(DecErr::Malformed("integer above ub".into()));
                        }
                        n
                    }
                    IntRoot::Semi(a) => self.semi(inp, a)?,
                }))
            }
            Type::Enumerated { root, ext } => {
                if ext.is_some() && inp.bit()? {
                    let k = self.nsnn(inp)? as usize;
                    let e = ext.as_ref().unwrap();
                    if k >= e.len() {
                        return Err(DecErr::UnknownExtension(format!("enum addition {}", k)));
                    }
                    Ok(Val::Enum(root.len() + k))
                } else {
                    let w = width_for_range(root.len() as u128);
                    let k = inp.uint(w)? as usize;
                    let order = enum_root_order(root);
                    order
                        .get(k)
                        .map(|i| Val::Enum(*i))
                        .ok_or_else(|| DecErr::Malformed("enum index".into()))
                }
            }
            Type::BitString { size, .. } => Ok(Val::Bits(self.sized(inp, size, &mut |i| i.bit())?)),
            Type::OctetString { size } => {
                Ok(Val::Bytes(self.sized(inp, size, &mut |i| Ok(i.uint(8)? as u8))?))
            }
            Type::CharString { cs: Charset::Utf8, .. } => {
                let o = self.octets_general(inp)?;
                String::from_utf8(o)
                    .map(Val::Str)
                    .map_err(|_| DecErr::Malformed("utf8".into()))
            }
            Type::CharString { cs, size } => {
                let cs = *cs;
                let chars = self.sized(inp, size, &mut |i| {
                    if cs == Charset::Numeric {
                        let v = i.uint(4)? as u8;
                        match v {
                            0 => Ok(' '),
                            1..=10 => Ok((b'0' + v - 1) as char),
                            _ => Err(DecErr::Malformed("numeric char".into())),
                        }
                    } else {
                        let c = i.uint(7)? as u8 as char;
                        if cs.is_legal(c) {
                            Ok(c)
                        } else {
                            Err(DecErr::Malformed("illegal char".into()))
                        }
                    }
                })?;
                Ok(Val::Str(chars.into_iter().collect()))
            }
            Type::Sequence(c) => self.decode_seq(mi, c, false, inp),
            Type::Set(c) => self.decode_seq(mi, c, true, inp),
            Type::SequenceOf { elem, size } | Type::SetOf { elem, size } => {
                Ok(Val::List(self.sized(inp, size, &mut |i| self.decode(mi, elem, i))?))
            }
            Type::Choice { root, ext } => {
                let extv: &[Alt] = ext.as_deref().unwrap_or(&[]);
                if ext.is_some() && inp.bit()? {
                    let k = self.nsnn(inp)? as usize;
                    let bits = self.open(inp)?;
                    if k >= extv.len() {
                        return Err(DecErr::UnknownExtension(format!("choice addition {}", k)));
                    }
                    let mut sub = BitIn::new(&bits);
                    let v = self.decode(mi, &extv[k].ty, &mut sub)?;
                    Ok(Val::Choice(root.len() + k, Box::new(v)))
                } else {
                    let w = width_for_range(root.len() as u128);
                    let k = inp.uint(w)? as usize;
                    let order = choice_root_order(self.u, mi, root, extv);
                    let idx = *order.get(k).ok_or_else(|| DecErr::Malformed("choice index".into()))?;
                    let v = self.decode(mi, &root[idx].ty, inp)?;
                    Ok(Val::Choice(idx, Box::new(v)))
                }
            }
        }
    }

    fn default_of(&self, mi: usize, comp: &Comp) -> Result<Option<Val>, DecErr> {
        match &comp.presence {
            Presence::Default(DefaultVal::Lit(l)) => lit_to_val(self.u, mi, &comp.ty, l)
                .map(Some)
                .map_err(DecErr::Malformed),
            _ => Ok(None),
        }
    }

    fn decode_seq(&self, mi: usize, c: &Comps, is_set: bool, inp: &mut BitIn) -> Result<Val, DecErr> {
        let nroot = c.root.len();
        let ext_present = if c.ext.is_some() { inp.bit()? } else { false };
        let root_order: Vec<usize> =
            if is_set { set_root_order(self.u, mi, c) } else { (0..nroot).collect() };
        let mut present = vec![true; nroot];
        for i in &root_order {
            if !matches!(c.root[*i].presence, Presence::Mandatory) {
                present[*i] = inp.bit()?;
            }
        }
        let mut vals: Vec<Option<Val>> = vec![None; c.len()];
        for i in &root_order {
            if present[*i] {
                vals[*i] = Some(self.decode(mi, &c.root[*i].ty, inp)?);
            } else {
                vals[*i] = self.default_of(mi, &c.root[*i])?;
            }
        }
        let adds: &[Comp] = c.ext.as_deref().unwrap_or(&[]);
        for (k, a) in adds.iter().enumerate() {
            vals[nroot + k] = self.default_of(mi, a)?;
        }
        if ext_present {
            let n = if !inp.bit()? {
                inp.uint(6)? as usize + 1
            } else {
                let (n, more) = read_lenu_or_frag(inp)?;
                if more {
                    return Err(DecErr::Malformed("fragmented addition count".into()));
                }
                n
            };
            let mut bitmap = Vec::with_capacity(n);
            for _ in 0..n {
                bitmap.push(inp.bit()?);
            }
            for (k, p) in bitmap.iter().enumerate() {
                if !*p {
                    continue;
                }
                let bits = self.open(inp)?;
                if k < adds.len() {
                    let mut sub = BitIn::new(&bits);
                    vals[nroot + k] = Some(self.decode(mi, &adds[k].ty, &mut sub)?);
                }
            }
        }
        Ok(Val::Seq(vals))
    }
}

#[cfg(test)]
mod tests {
    use super::*;

    #[test]
    fn widths() {
        assert_eq!(width_for_range(1), 0);
        assert_eq!(width_for_range(2), 1);
        assert_eq!(width_for_range(3), 2);
        assert_eq!(width_for_range(256), 8);
        assert_eq!(width_for_range(257), 9);
        assert_eq!(width_for_range(65536), 16);
    }

    #[test]
    fn octets() {
        assert_eq!(uint_octets(0), vec![0]);
        assert_eq!(uint_octets(255), vec![255]);
        assert_eq!(uint_octets(256), vec![1, 0]);
        assert_eq!(sint_octets(0), vec![0]);
        assert_eq!(sint_octets(127), vec![127]);
        assert_eq!(sint_octets(128), vec![0, 128]);
        assert_eq!(sint_octets(-128), vec![0x80]);
        assert_eq!(sint_octets(-129), vec![0xFF, 0x7F]);
        assert_eq!(sint_octets(-1), vec![0xFF]);
    }
}
