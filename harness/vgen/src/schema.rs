//! Abstract ASN.1 schema AST (independent of /repo). Exactly the subset asn1rs's README lists as parsed.
use serde::{Deserialize, Serialize};

#[derive(Clone, Copy, Debug, PartialEq, Eq, Hash, PartialOrd, Ord, Serialize, Deserialize)]
pub enum Class {
    // canonical order of X.680 8.6
    Universal,
    Application,
    Context,
    Private,
}

#[derive(Clone, Copy, Debug, PartialEq, Eq, Hash, PartialOrd, Ord, Serialize, Deserialize)]
pub struct Tag {
    pub class: Class,
    pub num: u64,
}

impl Tag {
    pub const fn u(num: u64) -> Tag {
        Tag { class: Class::Universal, num }
    }
    pub const fn ctx(num: u64) -> Tag {
        Tag { class: Class::Context, num }
    }
}

#[derive(Clone, Copy, Debug, PartialEq, Eq, Hash, Serialize, Deserialize)]
pub enum Charset {
    Utf8,
    Ia5,
    Numeric,
    Printable,
    Visible,
}

impl Charset {
    pub const ALL: [Charset; 5] = [
        Charset::Utf8,
        Charset::Ia5,
        Charset::Numeric,
        Charset::Printable,
        Charset::Visible,
    ];
    pub fn asn_name(self) -> &'static str {
        match self {
            Charset::Utf8 => "UTF8String",
            Charset::Ia5 => "IA5String",
            Charset::Numeric => "NumericString",
            Charset::Printable => "PrintableString",
            Charset::Visible => "VisibleString",
        }
    }
    pub fn universal_tag(self) -> u64 {
        match self {
            Charset::Utf8 => 12,
            Charset::Numeric => 18,
            Charset::Printable => 19,
            Charset::Ia5 => 22,
            Charset::Visible => 26,
        }
    }
    /// legal characters (X.680 41)
    pub fn is_legal(self, c: char) -> bool {
        match self {
            Charset::Utf8 => true,
            Charset::Ia5 => (c as u32) < 128,
            Charset::Numeric => c == ' ' || c.is_ascii_digit(),
            Charset::Printable => {
                c.is_ascii_alphanumeric() || " '()+,-./:=?".contains(c)
            }
            Charset::Visible => (32..=126).contains(&(c as u32)),
        }
    }
    pub fn alphabet(self) -> Vec<char> {
        match self {
            Charset::Utf8 => {
                let mut v: Vec<char> = (32u8..127).map(|b| b as char).collect();
                v.extend(['ä', 'ß', '€', '𝄞', 'é', '\n', '\u{0}']);
                v
            }
            _ => (0u8..128).map(|b| b as char).filter(|c| self.is_legal(*c)).collect(),
        }
    }
}

/// A bound of an INTEGER range or SIZE constraint as written in the source text.
#[derive(Clone, Debug, PartialEq, Eq, Hash, Serialize, Deserialize)]
pub enum Bound {
    Min,
    Max,
    Lit(i128),
    Ref(String),
}

impl Bound {
    pub fn lit(&self) -> Option<i128> {
        match self {
            Bound::Lit(v) => Some(*v),
            _ => None,
        }
    }
}

#[derive(Clone, Debug, PartialEq, Eq, Hash, Serialize, Deserialize)]
pub struct IntC {
    pub lo: Bound,
    pub hi: Bound,
    pub ext: bool,
}

#[derive(Clone, Debug, PartialEq, Eq, Hash, Serialize, Deserialize)]
pub enum Size {
    None,
    Fixed(Bound, bool),
    Range(Bound, Bound, bool),
}

impl Size {
    pub fn ext(&self) -> bool {
        match self {
            Size::None => false,
            Size::Fixed(_, e) => *e,
            Size::Range(_, _, e) => *e,
        }
    }
    /// (lb, ub) with ub None = MAX; None = no constraint. Only valid on resolved sizes.
    pub fn bounds(&self) -> Option<(u64, Option<u64>)> {
        fn b(b: &Bound, is_lo: bool) -> Option<u64> {
            match b {
                Bound::Lit(v) => Some(*v as u64),
                Bound::Min => Some(0),
                Bound::Max => {
                    if is_lo {
                        Some(0)
                    } else {
                        None
                    }
                }
                Bound::Ref(_) => panic!("unresolved size bound"),
            }
        }
        match self {
            Size::None => None,
            Size::Fixed(n, _) => {
                let n = b(n, true).unwrap();
                Some((n, Some(n)))
            }
            Size::Range(lo, hi, _) => Some((b(lo, true).unwrap(), b(hi, false))),
        }
    }
}

#[derive(Clone, Debug, PartialEq, Eq, Hash, Serialize, Deserialize)]
pub enum Lit {
    Bool(bool),
    Int(i128),
    Str(String),
    /// 'AB01'H
    Hex(Vec<u8>),
    /// '0101'B
    Bin(Vec<bool>),
    /// identifier of an enumeration item
    EnumItem(String),
}

#[derive(Clone, Debug, PartialEq, Eq, Hash, Serialize, Deserialize)]
pub enum DefaultVal {
    Lit(Lit),
    Ref(String),
}

#[derive(Clone, Debug, PartialEq, Eq, Hash, Serialize, Deserialize)]
pub enum Presence {
    Mandatory,
    Optional,
    Default(DefaultVal),
}

#[derive(Clone, Debug, PartialEq, Eq, Hash, Serialize, Deserialize)]
pub struct Comp {
    pub name: String,
    pub tag: Option<Tag>,
    pub ty: Type,
    pub presence: Presence,
}

#[derive(Clone, Debug, PartialEq, Eq, Hash, Serialize, Deserialize)]
pub struct Comps {
    pub root: Vec<Comp>,
    /// Some(additions) = extension marker after the root components
    pub ext: Option<Vec<Comp>>,
}

impl Comps {
    pub fn all(&self) -> impl Iterator<Item = &Comp> {
        self.root.iter().chain(self.ext.iter().flatten())
    }
    pub fn len(&self) -> usize {
        self.root.len() + self.ext.as_ref().map(|e| e.len()).unwrap_or(0)
    }
    pub fn is_empty(&self) -> bool {
        self.len() == 0
    }
}

#[derive(Clone, Debug, PartialEq, Eq, Hash, Serialize, Deserialize)]
pub struct Alt {
    pub name: String,
    pub tag: Option<Tag>,
    pub ty: Type,
}

#[derive(Clone, Debug, PartialEq, Eq, Hash, Serialize, Deserialize)]
pub struct EnumItem {
    pub name: String,
    pub num: Option<i64>,
}

#[derive(Clone, Debug, PartialEq, Eq, Hash, Serialize, Deserialize)]
pub enum Type {
    Boolean,
    Null,
    Integer { c: Option<IntC>, named: Vec<(String, i64)> },
    Enumerated { root: Vec<EnumItem>, ext: Option<Vec<EnumItem>> },
    BitString { size: Size, named: Vec<(String, u64)> },
    OctetString { size: Size },
    CharString { cs: Charset, size: Size },
    Sequence(Comps),
    Set(Comps),
    SequenceOf { elem: Box<Type>, size: Size },
    SetOf { elem: Box<Type>, size: Size },
    Choice { root: Vec<Alt>, ext: Option<Vec<Alt>> },
    Ref(String),
}

impl Type {
    pub fn int(lo: i128, hi: i128) -> Type {
        Type::Integer {
            c: Some(IntC { lo: Bound::Lit(lo), hi: Bound::Lit(hi), ext: false }),
            named: vec![],
        }
    }
    pub fn int_unconstrained() -> Type {
        Type::Integer { c: None, named: vec![] }
    }
    pub fn kind_name(&self) -> &'static str {
        match self {
            Type::Boolean => "BOOLEAN",
            Type::Null => "NULL",
            Type::Integer { .. } => "INTEGER",
            Type::Enumerated { .. } => "ENUMERATED",
            Type::BitString { .. } => "BIT STRING",
            Type::OctetString { .. } => "OCTET STRING",
            Type::CharString { cs, .. } => cs.asn_name(),
            Type::Sequence(_) => "SEQUENCE",
            Type::Set(_) => "SET",
            Type::SequenceOf { .. } => "SEQUENCE OF",
            Type::SetOf { .. } => "SET OF",
            Type::Choice { .. } => "CHOICE",
            Type::Ref(_) => "REF",
        }
    }
    /// does asn1rs extract this type into its own (struct/enum) definition when used inline?
    pub fn is_constructed_named(&self) -> bool {
        matches!(
            self,
            Type::Sequence(_) | Type::Set(_) | Type::Choice { .. } | Type::Enumerated { .. }
        )
    }
}

#[derive(Clone, Debug, PartialEq, Eq, Hash, Serialize, Deserialize)]
pub struct Def {
    pub name: String,
    pub tag: Option<Tag>,
    pub ty: Type,
}

#[derive(Clone, Debug, PartialEq, Eq, Hash, Serialize, Deserialize)]
pub struct ValueDef {
    pub name: String,
    pub ty: Type,
    pub lit: Lit,
}

#[derive(Clone, Debug, PartialEq, Eq, Hash, Serialize, Deserialize)]
pub enum OidComp {
    Name(String),
    Num(u64),
    NameNum(String, u64),
}

#[derive(Clone, Debug, PartialEq, Eq, Hash, Serialize, Deserialize)]
pub struct Import {
    pub what: Vec<String>,
    pub from: String,
    pub from_oid: Option<Vec<OidComp>>,
}

#[derive(Clone, Debug, PartialEq, Eq, Hash, Serialize, Deserialize)]
pub enum Item {
    Def(usize),
    Value(usize),
}

#[derive(Clone, Debug, PartialEq, Eq, Hash, Serialize, Deserialize, Default)]
pub struct Module {
    pub name: String,
    pub oid: Option<Vec<OidComp>>,
    pub imports: Vec<Import>,
    pub values: Vec<ValueDef>,
    pub defs: Vec<Def>,
    /// textual order of definitions and value assignments (indices into defs / values)
    pub order: Vec<Item>,
}

impl Module {
    pub fn new(name: &str) -> Module {
        Module { name: name.to_string(), ..Default::default() }
    }
    pub fn push_def(&mut self, d: Def) {
        self.order.push(Item::Def(self.defs.len()));
        self.defs.push(d);
    }
    pub fn push_value(&mut self, v: ValueDef) {
        self.order.push(Item::Value(self.values.len()));
        self.values.push(v);
    }
    pub fn def(&self, name: &str) -> Option<&Def> {
        self.defs.iter().find(|d| d.name == name)
    }
}

/// A set of modules loaded together (what the Converter is given).
#[derive(Clone, Debug, PartialEq, Eq, Serialize, Deserialize, Default)]
pub struct Universe {
    pub modules: Vec<Module>,
}

impl Universe {
    pub fn single(m: Module) -> Universe {
        Universe { modules: vec![m] }
    }
    /// look up a type definition visible from module `from`: own definitions first, then imports.
    pub fn lookup_def(&self, from: usize, name: &str) -> Option<(usize, &Def)> {
        let m = &self.modules[from];
        if let Some(d) = m.def(name) {
            return Some((from, d));
        }
        for imp in &m.imports {
            if imp.what.iter().any(|w| w == name) {
                for (i, other) in self.modules.iter().enumerate() {
                    if other.name == imp.from {
                        if let Some(d) = other.def(name) {
                            return Some((i, d));
                        }
                    }
                }
            }
        }
        None
    }
    pub fn lookup_value(&self, from: usize, name: &str) -> Option<&ValueDef> {
        let m = &self.modules[from];
        if let Some(v) = m.values.iter().find(|v| v.name == name) {
            return Some(v);
        }
        for imp in &m.imports {
            if imp.what.iter().any(|w| w == name) {
                for other in self.modules.iter() {
                    if other.name == imp.from {
                        if let Some(v) = other.values.iter().find(|v| v.name == name) {
                            return Some(v);
                        }
                    }
                }
            }
        }
        None
    }
}
