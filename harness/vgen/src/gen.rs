//! Grammar-based random schema generator.
use crate::rng::Rng;
use crate::schema::*;

#[derive(Clone, Debug)]
pub struct GenCfg {
    pub max_depth: u32,
    pub max_fanout: usize,
    /// use the hostile identifier pool (C09)
    pub hostile_idents: bool,
    /// hostile identifiers may meet after Rust name mangling and may be `self` (recorded C09 findings, pinned by the
    /// systematic compile families); off = keywords and awkward names only
    pub hostile_collisions: bool,
    /// replace some bounds / defaults by value references
    pub value_refs: bool,
    /// explicit tags on some components/alternatives/definitions
    pub explicit_tags: bool,
    /// numeric bounds from the boundary pool (else small)
    pub big_bounds: bool,
    /// sizes around 16K / 64K
    pub large_sizes: bool,
    /// DEFAULT components
    pub defaults: bool,
    /// DEFAULT of every literal kind (strings, hex, enum) - else INTEGER/BOOLEAN only
    pub rich_defaults: bool,
    /// explicit numbers in ENUMERATED
    pub enum_numbers: bool,
    /// named numbers / named bits
    pub named_numbers: bool,
    /// extension markers
    pub extensions: bool,
    /// INTEGER forms with MIN / MAX
    pub min_max_bounds: bool,
    /// OIDs on modules
    pub oids: bool,
    /// value references with negative values and DEFAULTs outside the range asn1rs's generated types can hold
    /// (unconstrained INTEGER maps to u64: `pub const X: u64 = -5;` does not compile - recorded finding)
    pub unrepresentable_ints: bool,
}

impl GenCfg {
    pub fn codec() -> GenCfg {
        GenCfg {
            max_depth: 3,
            max_fanout: 5,
            hostile_idents: false,
            hostile_collisions: false,
            value_refs: true,
            explicit_tags: true,
            big_bounds: true,
            large_sizes: false,
            defaults: true,
            rich_defaults: true,
            enum_numbers: true,
            named_numbers: true,
            extensions: true,
            min_max_bounds: true,
            oids: true,
            unrepresentable_ints: false,
        }
    }
    pub fn front() -> GenCfg {
        GenCfg { max_depth: 4, max_fanout: 6, large_sizes: true, unrepresentable_ints: true, ..GenCfg::codec() }
    }
}

pub const WORDS: &[&str] = &[
    "alpha", "beta", "gamma", "delta", "eps", "zeta", "eta", "theta", "iota", "kappa", "lambda", "mu",
    "nu", "xi", "omi", "pi", "rho", "sigma", "tau", "ups", "phi", "chi", "psi", "omega", "count",
    "flag", "name", "ident", "data", "item", "list", "kind", "code", "level", "speed", "heading",
];

pub const RUST_KEYWORDS: &[&str] = &[
    "as", "break", "const", "continue", "crate", "else", "enum", "extern", "false", "fn", "for", "if",
    "impl", "in", "let", "loop", "match", "mod", "move", "mut", "pub", "ref", "return", "self", "Self",
    "static", "struct", "super", "trait", "true", "type", "unsafe", "use", "where", "while", "async",
    "await", "dyn", "abstract", "become", "box", "do", "final", "macro", "override", "priv", "typeof",
    "unsized", "virtual", "yield", "try", "union",
];

pub const BOUNDARY_SMALL: &[i128] = &[0, 1, 2, 3, 5, 7, 8, 15, 16, 63, 64, 100, 127, 128, 255, 256];

pub fn boundary_pool() -> Vec<i128> {
    let mut v: Vec<i128> = vec![0, 1, -1, 2, -2, 3, 5, 7, 10, 100, 127, 128, 255, 256, 16383, 16384, 65535, 65536];
    for k in [7u32, 8, 15, 16, 31, 32, 33, 47, 48, 55, 56, 62, 63] {
        let p = 1i128 << k;
        for d in [-1i128, 0, 1] {
            v.push(p + d);
            v.push(-p + d);
        }
    }
    v.retain(|x| *x >= i64::MIN as i128 && *x <= i64::MAX as i128);
    v.sort();
    v.dedup();
    v
}

#[derive(Clone, Debug)]
pub struct EnvDef {
    pub name: String,
    pub ty: Type,
    pub tag: Option<Tag>,
    /// nesting weight: references to heavy types are avoided inside big lists
    pub weight: usize,
    pub module: String,
}

pub struct Gen<'r> {
    pub rng: &'r mut Rng,
    pub cfg: GenCfg,
    pub counter: usize,
    pub env: Vec<EnvDef>,
    /// value definitions to be added to the module being generated
    pub pending_values: Vec<ValueDef>,
    pub value_counter: usize,
}

fn mangle_variant(name: &str) -> String {
    let mut out = String::new();
    let mut up = true;
    for c in name.chars() {
        if up {
            out.extend(c.to_uppercase());
            up = false;
        } else if c == '-' || c == '_' {
            up = true;
        } else {
            out.push(c);
        }
    }
    out
}

impl<'r> Gen<'r> {
    pub fn new(rng: &'r mut Rng, cfg: GenCfg) -> Self {
        Gen { rng, cfg, counter: 0, env: Vec::new(), pending_values: Vec::new(), value_counter: 0 }
    }

    pub fn type_name(&mut self) -> String {
        self.counter += 1;
        let p = *self.rng.pick(&["T", "Msg", "Data", "Item", "Rec", "Unit"]);
        format!("{}{}", p, self.counter)
    }

    /// a set of `n` distinct lower-case identifiers (distinct also after Rust name mangling)
    pub fn idents(&mut self, n: usize) -> Vec<String> {
        let mut out: Vec<String> = Vec::new();
        let mut mangled: Vec<String> = Vec::new();
        let mut guard = 0;
        while out.len() < n {
            guard += 1;
            let cand = if self.cfg.hostile_idents && self.rng.chance(1, 2) && guard < 200 {
                self.hostile_ident()
            } else {
                let mut s = self.rng.pick(WORDS).to_string();
                match self.rng.below(6) {
                    0 => {
                        s.push('-');
                        let w2: &str = *self.rng.pick(WORDS); s.push_str(w2);
                    }
                    1 => s.push_str(&format!("{}", self.rng.below(10))),
                    2 => {
                        let w2 = self.rng.pick(WORDS).to_string();
                        s.push_str(&mangle_variant(&w2));
                    }
                    _ => {}
                }
                if guard > 100 {
                    s.push_str(&format!("{}", guard));
                }
                s
            };
            let m = mangle_variant(&cand).to_lowercase();
            let f = cand.replace('-', "_");
            if self.cfg.hostile_idents && self.cfg.hostile_collisions {
                // hostile pool deliberately allows collisions after mangling, but never textual duplicates
                if out.contains(&cand) {
                    continue;
                }
            } else if mangled.contains(&m) || mangled.contains(&f) || (!self.cfg.hostile_idents && RUST_KEYWORDS.contains(&f.as_str())) || (self.cfg.hostile_idents && (f == "self" || f == "true" || f == "false" || cand.ends_with('-'))) {
                continue;
            }
            mangled.push(m);
            mangled.push(f);
            out.push(cand);
        }
        out
    }

    fn hostile_ident(&mut self) -> String {
        match self.rng.below(8) {
            0..=3 => {
                let k = *self.rng.pick(RUST_KEYWORDS);
                // ASN.1 identifiers start with a lower-case letter
                if k == "Self" {
                    "self".to_string()
                } else {
                    k.to_string()
                }
            }
            4 => format!("{}-{}", self.rng.pick(WORDS), self.rng.pick(RUST_KEYWORDS).to_lowercase()),
            5 => {
                // pairs differing only in case or separators are produced by repeated draws
                let w = self.rng.pick(&["ab-cd", "abCd", "ab-Cd", "abcd", "a-b-cd", "value", "index", "variant", "new", "default", "clone", "min", "max", "value-min", "value-max"]);
                w.to_string()
            }
            6 => format!("{}{}", self.rng.pick(WORDS), self.rng.below(3)),
            _ => self.rng.pick(&["r-type", "type-", "u8", "i64", "string", "vec", "option", "some", "none", "ok", "err", "bool", "str"]).to_string(),
        }
    }

    fn value_ref_for(&mut self, v: i128, as_type: Type) -> Bound {
        self.value_counter += 1;
        let name = format!("{}-val{}", self.rng.pick(&["max", "min", "len", "lim", "num"]), self.value_counter);
        self.pending_values.push(ValueDef { name: name.clone(), ty: as_type, lit: Lit::Int(v) });
        Bound::Ref(name)
    }

    fn maybe_ref(&mut self, v: i128) -> Bound {
        if self.cfg.value_refs && (v >= 0 || self.cfg.unrepresentable_ints) && self.rng.chance(1, 8) {
            self.value_ref_for(v, Type::int_unconstrained())
        } else {
            Bound::Lit(v)
        }
    }

    pub fn gen_int_constraint(&mut self) -> Option<IntC> {
        let pool = if self.cfg.big_bounds { boundary_pool() } else { BOUNDARY_SMALL.to_vec() };
        let form = self.rng.weighted(&[
            3,                                             // none
            10,                                            // lb..ub
            4,                                             // lb..ub,...
            if self.cfg.min_max_bounds { 2 } else { 0 },   // lb..MAX
            if self.cfg.min_max_bounds { 1 } else { 0 },   // 0..MAX
            if self.cfg.min_max_bounds { 1 } else { 0 },   // MIN..ub
            if self.cfg.min_max_bounds { 1 } else { 0 },   // MIN..MAX
            if self.cfg.min_max_bounds { 1 } else { 0 },   // open-ended and extensible
        ]);
        let mut pair = |g: &mut Gen| -> (i128, i128) {
            loop {
                let a = if g.rng.chance(1, 2) { *g.rng.pick(&pool) } else { g.rng.range_i128(-20, 300) };
                let b = match g.rng.below(5) {
                    0 => a,
                    1 => a + *g.rng.pick(&[1i128, 2, 3, 7, 15, 254, 255, 256, 65534, 65535, 65536]),
                    2 => *g.rng.pick(&pool),
                    _ => a + g.rng.range_i128(0, 1000),
                };
                let (a, b) = if a <= b { (a, b) } else { (b, a) };
                if b > i64::MAX as i128 || a < i64::MIN as i128 || b - a > i64::MAX as i128 {
                    continue;
                }
                return (a, b);
            }
        };
        match form {
            0 => None,
            1 | 2 => {
                let (a, b) = pair(self);
                Some(IntC { lo: self.maybe_ref(a), hi: self.maybe_ref(b), ext: form == 2 })
            }
            3 => {
                let (a, _) = pair(self);
                Some(IntC { lo: Bound::Lit(a), hi: Bound::Max, ext: false })
            }
            4 => Some(IntC { lo: Bound::Lit(0), hi: Bound::Max, ext: false }),
            5 => {
                let (_, b) = pair(self);
                Some(IntC { lo: Bound::Min, hi: Bound::Lit(b), ext: false })
            }
            6 => Some(IntC { lo: Bound::Min, hi: Bound::Max, ext: false }),
            _ => {
                let (a, b) = pair(self);
                Some(match self.rng.below(4) {
                    0 => IntC { lo: Bound::Lit(0), hi: Bound::Max, ext: true },
                    1 => IntC { lo: Bound::Min, hi: Bound::Max, ext: true },
                    2 => IntC { lo: Bound::Lit(a), hi: Bound::Max, ext: true },
                    _ => IntC { lo: Bound::Min, hi: Bound::Lit(b), ext: true },
                })
            }
        }
    }

    pub fn gen_size(&mut self) -> Size {
        let form = self.rng.weighted(&[6, 3, 1, 6, 3, 1]);
        let small = |g: &mut Gen| -> u64 {
            if g.cfg.large_sizes && g.rng.chance(1, 6) {
                *g.rng.pick(&[127u64, 128, 255, 256, 16383, 16384, 65535, 65536, 70000])
            } else {
                g.rng.range(0, 12)
            }
        };
        match form {
            0 => Size::None,
            1 | 2 => {
                let n = small(self);
                Size::Fixed(self.maybe_size_ref(n), form == 2)
            }
            3 | 4 => {
                let a = small(self);
                let b = a + match self.rng.below(4) {
                    0 => 0,
                    1 => 1,
                    _ => self.rng.range(1, 20),
                };
                Size::Range(self.maybe_size_ref(a), self.maybe_size_ref(b), form == 4)
            }
            _ => {
                let a = self.rng.range(0, 4);
                Size::Range(Bound::Lit(a as i128), Bound::Max, false)
            }
        }
    }

    fn maybe_size_ref(&mut self, n: u64) -> Bound {
        self.maybe_ref(n as i128)
    }

    fn gen_tag(&mut self) -> Tag {
        let class = *self.rng.pick(&[Class::Context, Class::Context, Class::Application, Class::Private, Class::Universal]);
        let num = if class == Class::Universal { self.rng.range(40, 60) } else { self.rng.range(0, 12) };
        Tag { class, num }
    }

    fn gen_default_for(&mut self, t: &Type) -> Option<DefaultVal> {
        let lit = match t {
            Type::Boolean => Lit::Bool(self.rng.bool()),
            Type::Integer { c, .. } => {
                let (lo, hi) = match c {
                    None => (0i128, 1000),
                    Some(c) => {
                        let lo = c.lo.lit();
                        let hi = c.hi.lit();
                        match (lo, hi) {
                            (Some(a), Some(b)) => (a, b),
                            (Some(a), None) => (a, a.saturating_add(1000).min(i64::MAX as i128)),
                            (None, Some(b)) => (b.saturating_sub(1000).max(0).min(b), b),
                            (None, None) => {
                                if matches!(c.lo, Bound::Ref(_)) || matches!(c.hi, Bound::Ref(_)) {
                                    return None;
                                }
                                (0, 1000)
                            }
                        }
                    }
                };
                let v = match self.rng.below(3) {
                    0 => lo,
                    1 => hi,
                    _ => self.rng.range_i128(lo, hi.min(lo.saturating_add(100000))),
                };
                if !self.cfg.unrepresentable_ints {
                    if let Some(c) = c {
                        if matches!(c.lo, Bound::Ref(_)) || matches!(c.hi, Bound::Ref(_)) {
                            return None;
                        }
                    }
                    let (rl, rh) = crate::valgen::representable_range(c);
                    if v < rl || v > rh {
                        return None;
                    }
                }
                Lit::Int(v)
            }
            Type::CharString { cs, size } if self.cfg.rich_defaults => {
                let (lb, ub) = size_lit_bounds(size)?;
                let n = lb.max(2.min(ub)) as usize;
                // '"' ends the literal; "--" and "/*" are comments to the tokenizer even inside a literal (not generated)
                let alpha: Vec<char> = cs
                    .alphabet()
                    .into_iter()
                    .filter(|c| c.is_ascii_alphanumeric() || " (),.:=+?".contains(*c))
                    .collect();
                let s: String = (0..n).map(|_| *self.rng.pick(&alpha)).collect();
                if (s.chars().count() as u64) < lb || s.chars().count() as u64 > ub {
                    return None;
                }
                Lit::Str(s)
            }
            Type::OctetString { size } if self.cfg.rich_defaults => {
                let (lb, ub) = size_lit_bounds(size)?;
                let n = lb.max(2.min(ub)) as usize;
                Lit::Hex(self.rng.bytes(n))
            }
            Type::BitString { size, .. } if self.cfg.rich_defaults => {
                let (lb, ub) = size_lit_bounds(size)?;
                let n = lb.max(5.min(ub)) as usize;
                Lit::Bin((0..n).map(|_| self.rng.bool()).collect())
            }
            Type::Ref(name) if self.cfg.rich_defaults => {
                let d = self.env.iter().find(|d| &d.name == name)?;
                match &d.ty {
                    Type::Enumerated { root, .. } => Lit::EnumItem(self.rng.pick(root).name.clone()),
                    _ => return None,
                }
            }
            _ => return None,
        };
        let negative = matches!(lit, Lit::Int(i) if i < 0);
        if self.cfg.value_refs && self.rng.chance(1, 8) && !matches!(lit, Lit::EnumItem(_)) && (!negative || self.cfg.unrepresentable_ints) {
            self.value_counter += 1;
            let name = format!("def-val{}", self.value_counter);
            let vt = match t {
                Type::Integer { .. } => Type::int_unconstrained(),
                Type::BitString { .. } => Type::BitString { size: Size::None, named: vec![] },
                Type::OctetString { .. } => Type::OctetString { size: Size::None },
                Type::CharString { cs, .. } => Type::CharString { cs: *cs, size: Size::None },
                other => other.clone(),
            };
            self.pending_values.push(ValueDef { name: name.clone(), ty: vt, lit });
            return Some(DefaultVal::Ref(name));
        }
        Some(DefaultVal::Lit(lit))
    }

    pub fn gen_enum(&mut self) -> Type {
        let n = match self.rng.below(10) {
            0 => 1,
            1 => 2,
            2 => self.rng.range(60, 70) as usize,
            _ => self.rng.range(2, 8) as usize,
        };
        let next = if self.cfg.extensions && self.rng.chance(1, 3) { Some(self.rng.range(0, 3) as usize) } else { None };
        let names = self.idents(n + next.unwrap_or(0));
        let numbered = self.cfg.enum_numbers && self.rng.chance(1, 4);
        let mut nums: Vec<i64> = (0..n as i64 * 3).collect();
        self.rng.shuffle(&mut nums);
        let root: Vec<EnumItem> = names[..n]
            .iter()
            .enumerate()
            .map(|(i, name)| EnumItem {
                name: name.clone(),
                num: if numbered && self.rng.chance(2, 3) { Some(nums[i] + 0) } else { None },
            })
            .collect();
        // explicit numbers must not collide with implicitly assigned ones: X.680 assigns implicit numbers
        // skipping explicit ones, so any set of distinct explicit numbers is legal.
        let ext = next.map(|_| {
            names[n..].iter().map(|name| EnumItem { name: name.clone(), num: None }).collect::<Vec<_>>()
        });
        Type::Enumerated { root, ext }
    }

    fn gen_leaf(&mut self) -> Type {
        match self.rng.weighted(&[4, 2, 10, 3, 3, 6]) {
            0 => Type::Boolean,
            1 => Type::Null,
            2 => {
                let c = self.gen_int_constraint();
                let named = if self.cfg.named_numbers && self.rng.chance(1, 8) {
                    let ids = self.idents(2);
                    ids.into_iter().enumerate().map(|(i, n)| (n, i as i64 * 3)).collect()
                } else {
                    vec![]
                };
                Type::Integer { c, named }
            }
            3 => {
                let size = self.gen_size();
                let named = if self.cfg.named_numbers
                    && self.rng.chance(1, 4)
                    && matches!(size, Size::Fixed(Bound::Lit(n), false) if n >= 3)
                {
                    let ids = self.idents(2);
                    ids.into_iter().enumerate().map(|(i, n)| (n, i as u64)).collect()
                } else {
                    vec![]
                };
                Type::BitString { size, named }
            }
            4 => Type::OctetString { size: self.gen_size() },
            _ => {
                let cs = *self.rng.pick(&Charset::ALL);
                Type::CharString { cs, size: self.gen_size() }
            }
        }
    }

    fn gen_ref(&mut self, max_weight: usize) -> Option<Type> {
        let cands: Vec<&EnvDef> = self.env.iter().filter(|d| d.weight <= max_weight).collect();
        if cands.is_empty() {
            return None;
        }
        let i = self.rng.usize_below(cands.len());
        Some(Type::Ref(cands[i].name.clone()))
    }

    pub fn gen_comps(&mut self, depth: u32) -> Comps {
        let n = match self.rng.below(12) {
            0 => 0,
            1 => 1,
            _ => self.rng.range(1, self.cfg.max_fanout as u64) as usize,
        };
        // the front end rejects an extension marker before the first component (recorded in known_findings.json as fixed)
        let next = if self.cfg.extensions && n > 0 && self.rng.chance(1, 3) { Some(self.rng.range(0, 3) as usize) } else { None };
        let names = self.idents(n + next.unwrap_or(0));
        let tagged = self.cfg.explicit_tags && self.rng.chance(1, 5);
        let mut used_tags: Vec<Tag> = Vec::new();
        let mut comps = Vec::new();
        for (i, name) in names.iter().enumerate() {
            let ty = self.gen_type(depth + 1);
            let presence = if i >= n {
                // extension additions
                match self.rng.below(4) {
                    0 => Presence::Optional,
                    1 if self.cfg.defaults => self.gen_default_for(&ty).map(Presence::Default).unwrap_or(Presence::Optional),
                    _ => Presence::Mandatory,
                }
            } else {
                match self.rng.below(6) {
                    0 | 1 => Presence::Optional,
                    2 if self.cfg.defaults => self.gen_default_for(&ty).map(Presence::Default).unwrap_or(Presence::Mandatory),
                    _ => Presence::Mandatory,
                }
            };
            let tag = if tagged {
                // every component gets a distinct explicit tag (partly tagged lists are generated by the C16 family)
                loop {
                    let t = self.gen_tag();
                    if !used_tags.contains(&t) {
                        used_tags.push(t);
                        break Some(t);
                    }
                }
            } else {
                None
            };
            comps.push(Comp { name: name.clone(), tag, ty, presence });
        }
        let ext = next.map(|_| comps.split_off(n));
        Comps { root: comps, ext }
    }

    pub fn gen_choice(&mut self, depth: u32) -> Type {
        let n = match self.rng.below(10) {
            0 => 1,
            _ => self.rng.range(2, self.cfg.max_fanout as u64) as usize,
        };
        let next = if self.cfg.extensions && self.rng.chance(1, 3) { Some(self.rng.range(0, 3) as usize) } else { None };
        let names = self.idents(n + next.unwrap_or(0));
        let tagged = self.cfg.explicit_tags && self.rng.chance(1, 5);
        let mut used_tags: Vec<Tag> = Vec::new();
        let mut alts = Vec::new();
        for name in names.iter() {
            let ty = self.gen_type(depth + 1);
            let tag = if tagged {
                loop {
                    let t = self.gen_tag();
                    if !used_tags.contains(&t) {
                        used_tags.push(t);
                        break Some(t);
                    }
                }
            } else {
                None
            };
            alts.push(Alt { name: name.clone(), tag, ty });
        }
        let ext = next.map(|_| alts.split_off(n));
        Type::Choice { root: alts, ext }
    }

    pub fn gen_type(&mut self, depth: u32) -> Type {
        if depth >= self.cfg.max_depth {
            if self.rng.chance(1, 4) {
                if let Some(r) = self.gen_ref(6) {
                    return r;
                }
            }
            return self.gen_leaf();
        }
        match self.rng.weighted(&[10, 3, 2, 3, 2, 3, 3]) {
            0 => self.gen_leaf(),
            1 => Type::Sequence(self.gen_comps(depth)),
            2 => Type::Set(self.gen_comps(depth)),
            3 => self.gen_choice(depth),
            4 => self.gen_enum(),
            5 => {
                let elem = Box::new(self.gen_type(depth + 1));
                let size = self.gen_size();
                if self.rng.chance(1, 3) {
                    Type::SetOf { elem, size }
                } else {
                    Type::SequenceOf { elem, size }
                }
            }
            _ => self.gen_ref(30).unwrap_or_else(|| self.gen_leaf()),
        }
    }

    pub fn gen_def_type(&mut self) -> Type {
        // top-level definitions are mostly constructed
        match self.rng.weighted(&[6, 3, 3, 2, 3, 4, 1]) {
            0 => Type::Sequence(self.gen_comps(0)),
            1 => Type::Set(self.gen_comps(0)),
            2 => self.gen_choice(0),
            3 => self.gen_enum(),
            4 => {
                let elem = Box::new(self.gen_type(1));
                let size = self.gen_size();
                if self.rng.chance(1, 3) {
                    Type::SetOf { elem, size }
                } else {
                    Type::SequenceOf { elem, size }
                }
            }
            5 => self.gen_leaf(),
            _ => self.gen_ref(30).unwrap_or_else(|| self.gen_leaf()),
        }
    }

    pub fn gen_module(&mut self, name: &str, n_defs: usize) -> Module {
        let mut m = Module::new(name);
        if self.cfg.oids && self.rng.chance(1, 3) {
            m.oid = Some(vec![
                OidComp::Name("iso".into()),
                OidComp::NameNum("org".into(), 3),
                OidComp::Num(self.rng.range(1, 9999)),
                OidComp::NameNum(format!("mod{}", self.rng.below(100)), self.rng.range(0, 50)),
            ]);
        }
        for _ in 0..n_defs {
            let ty = self.gen_def_type();
            let name = self.type_name();
            let tag = if self.cfg.explicit_tags && self.rng.chance(1, 10) { Some(self.gen_tag()) } else { None };
            // value references defined before or after their use
            let vals: Vec<ValueDef> = self.pending_values.drain(..).collect();
            let before = self.rng.bool();
            if before {
                for v in vals.iter().cloned() {
                    m.push_value(v);
                }
            }
            self.env.push(EnvDef { name: name.clone(), ty: ty.clone(), tag, weight: type_weight(&ty), module: m.name.clone() });
            m.push_def(Def { name, tag, ty });
            if !before {
                for v in vals {
                    m.push_value(v);
                }
            }
        }
        m
    }
}

pub fn size_lit_bounds(s: &Size) -> Option<(u64, u64)> {
    match s {
        Size::None => Some((0, u64::MAX)),
        Size::Fixed(Bound::Lit(n), false) => Some((*n as u64, *n as u64)),
        Size::Range(Bound::Lit(a), Bound::Lit(b), false) => Some((*a as u64, *b as u64)),
        Size::Range(Bound::Lit(a), Bound::Max, false) => Some((*a as u64, u64::MAX)),
        _ => None,
    }
}

pub fn type_weight(t: &Type) -> usize {
    match t {
        Type::Sequence(c) | Type::Set(c) => 1 + c.all().map(|c| type_weight(&c.ty)).sum::<usize>(),
        Type::Choice { root, ext } => {
            1 + root.iter().chain(ext.iter().flatten()).map(|a| type_weight(&a.ty)).max().unwrap_or(0)
        }
        Type::SequenceOf { elem, .. } | Type::SetOf { elem, .. } => 2 + 2 * type_weight(elem),
        Type::Ref(_) => 4,
        _ => 1,
    }
}
