//! Abstract values.
use serde::{Deserialize, Serialize};

#[derive(Clone, Debug, PartialEq, Eq, Hash, Serialize, Deserialize)]
pub enum Val {
    Bool(bool),
    Null,
    Int(i128),
    /// textual index over root items followed by additions
    Enum(usize),
    Bits(Vec<bool>),
    Bytes(Vec<u8>),
    Str(String),
    /// one entry per component in textual order (root, then additions);
    /// None = absent OPTIONAL / absent addition. DEFAULT components are always Some(..).
    Seq(Vec<Option<Val>>),
    List(Vec<Val>),
    /// textual index over root alternatives followed by additions
    Choice(usize, Box<Val>),
}

impl Val {
    pub fn short(&self) -> String {
        let s = format!("{:?}", self);
        if s.chars().count() > 300 {
            format!("{}…({} chars)", s.chars().take(300).collect::<String>(), s.chars().count())
        } else {
            s
        }
    }
    pub fn kind(&self) -> &'static str {
        match self {
            Val::Bool(_) => "Bool",
            Val::Null => "Null",
            Val::Int(_) => "Int",
            Val::Enum(_) => "Enum",
            Val::Bits(_) => "Bits",
            Val::Bytes(_) => "Bytes",
            Val::Str(_) => "Str",
            Val::Seq(_) => "Seq",
            Val::List(_) => "List",
            Val::Choice(..) => "Choice",
        }
    }
    /// number of nodes, a cheap size measure
    pub fn nodes(&self) -> usize {
        match self {
            Val::Seq(f) => 1 + f.iter().flatten().map(|v| v.nodes()).sum::<usize>(),
            Val::List(l) => 1 + l.iter().map(|v| v.nodes()).sum::<usize>(),
            Val::Choice(_, v) => 1 + v.nodes(),
            _ => 1,
        }
    }
}

pub fn hash_val(v: &Val) -> u64 {
    use std::hash::{Hash, Hasher};
    let mut h = std::collections::hash_map::DefaultHasher::new();
    v.hash(&mut h);
    h.finish()
}
