//! ASN.1 pretty-printer: schema AST -> lexical items -> text under a chosen layout.
//! Also R-lexer: the token sequence and (line, column) of every token implied by items + layout.
use crate::rng::Rng;
use crate::schema::*;

#[derive(Clone, Debug, PartialEq, Eq)]
pub enum Lex {
    /// identifier, keyword or number (with sign)
    Word(String),
    /// punctuation: "::=", "..", "...", "{", "}", "(", ")", ",", "[", "]", ";"
    Punct(&'static str),
    /// "characters" (one lexical item)
    CStr(String),
    /// 'digits'H or 'digits'B (one lexical item)
    QStr(String, char),
    /// layout hint for the canonical layout only (newline + indent); not a lexical item
    Break(usize),
}

fn w(v: &mut Vec<Lex>, s: &str) {
    v.push(Lex::Word(s.to_string()));
}
fn p(v: &mut Vec<Lex>, s: &'static str) {
    v.push(Lex::Punct(s));
}

fn lex_bound(v: &mut Vec<Lex>, b: &Bound) {
    match b {
        Bound::Min => w(v, "MIN"),
        Bound::Max => w(v, "MAX"),
        Bound::Lit(i) => w(v, &i.to_string()),
        Bound::Ref(r) => w(v, r),
    }
}

fn lex_tag(v: &mut Vec<Lex>, t: &Option<Tag>) {
    if let Some(t) = t {
        p(v, "[");
        match t.class {
            Class::Universal => w(v, "UNIVERSAL"),
            Class::Application => w(v, "APPLICATION"),
            Class::Private => w(v, "PRIVATE"),
            Class::Context => {}
        }
        w(v, &t.num.to_string());
        p(v, "]");
    }
}

fn lex_size_inner(v: &mut Vec<Lex>, s: &Size) {
    w(v, "SIZE");
    p(v, "(");
    match s {
        Size::None => unreachable!(),
        Size::Fixed(n, e) => {
            lex_bound(v, n);
            if *e {
                p(v, ",");
                p(v, "...");
            }
        }
        Size::Range(a, b, e) => {
            lex_bound(v, a);
            p(v, "..");
            lex_bound(v, b);
            if *e {
                p(v, ",");
                p(v, "...");
            }
        }
    }
    p(v, ")");
}

fn lex_size_paren(v: &mut Vec<Lex>, s: &Size) {
    if !matches!(s, Size::None) {
        p(v, "(");
        lex_size_inner(v, s);
        p(v, ")");
    }
}

pub fn lex_lit(v: &mut Vec<Lex>, l: &Lit) {
    match l {
        Lit::Bool(b) => w(v, if *b { "TRUE" } else { "FALSE" }),
        Lit::Int(i) => w(v, &i.to_string()),
        Lit::Str(s) => v.push(Lex::CStr(s.clone())),
        Lit::Hex(h) => {
            let mut digits = h.iter().map(|b| format!("{:02X}", b)).collect::<String>();
            // an odd number of digits: half of the literals whose first octet is below 0x10 are written without the
            // leading zero digit. This pins asn1rs's current reading ('A71'H = 0A 71); X.680 arguably reads a missing digit
            // as a *trailing* zero (A7 10) - not asserted here, see DESIGN.md 11.7
            if h.len() >= 2 && h[0] < 0x10 && h.iter().map(|b| *b as u32).sum::<u32>() % 2 == 0 {
                digits.remove(0);
            }
            v.push(Lex::QStr(digits, 'H'))
        }
        Lit::Bin(b) => v.push(Lex::QStr(
            b.iter().map(|b| if *b { '1' } else { '0' }).collect::<String>(),
            'B',
        )),
        Lit::EnumItem(n) => w(v, n),
    }
}

fn lex_comps(v: &mut Vec<Lex>, c: &Comps, indent: usize) {
    p(v, "{");
    let mut first = true;
    let mut sep = |v: &mut Vec<Lex>, first: &mut bool| {
        if !*first {
            p(v, ",");
        }
        *first = false;
        v.push(Lex::Break(indent + 1));
    };
    let comp = |v: &mut Vec<Lex>, c: &Comp| {
        w(v, &c.name);
        lex_tag(v, &c.tag);
        lex_type(v, &c.ty, indent + 1);
        match &c.presence {
            Presence::Mandatory => {}
            Presence::Optional => w(v, "OPTIONAL"),
            Presence::Default(DefaultVal::Lit(l)) => {
                w(v, "DEFAULT");
                lex_lit(v, l);
            }
            Presence::Default(DefaultVal::Ref(r)) => {
                w(v, "DEFAULT");
                w(v, r);
            }
        }
    };
    for c in &c.root {
        sep(v, &mut first);
        comp(v, c);
    }
    if let Some(ext) = &c.ext {
        sep(v, &mut first);
        p(v, "...");
        for c in ext {
            sep(v, &mut first);
            comp(v, c);
        }
    }
    v.push(Lex::Break(indent));
    p(v, "}");
}

fn lex_enum_items(v: &mut Vec<Lex>, items: &[EnumItem], first: &mut bool) {
    for i in items {
        if !*first {
            p(v, ",");
        }
        *first = false;
        w(v, &i.name);
        if let Some(n) = i.num {
            p(v, "(");
            w(v, &n.to_string());
            p(v, ")");
        }
    }
}

pub fn lex_type(v: &mut Vec<Lex>, t: &Type, indent: usize) {
    match t {
        Type::Boolean => w(v, "BOOLEAN"),
        Type::Null => w(v, "NULL"),
        Type::Integer { c, named } => {
            w(v, "INTEGER");
            if !named.is_empty() {
                p(v, "{");
                for (i, (n, val)) in named.iter().enumerate() {
                    if i > 0 {
                        p(v, ",");
                    }
                    w(v, n);
                    p(v, "(");
                    w(v, &val.to_string());
                    p(v, ")");
                }
                p(v, "}");
            }
            if let Some(c) = c {
                p(v, "(");
                lex_bound(v, &c.lo);
                p(v, "..");
                lex_bound(v, &c.hi);
                if c.ext {
                    p(v, ",");
                    p(v, "...");
                }
                p(v, ")");
            }
        }
        Type::Enumerated { root, ext } => {
            w(v, "ENUMERATED");
            p(v, "{");
            let mut first = true;
            lex_enum_items(v, root, &mut first);
            if let Some(e) = ext {
                p(v, ",");
                p(v, "...");
                lex_enum_items(v, e, &mut first);
            }
            p(v, "}");
        }
        Type::BitString { size, named } => {
            w(v, "BIT");
            w(v, "STRING");
            if !named.is_empty() {
                p(v, "{");
                for (i, (n, val)) in named.iter().enumerate() {
                    if i > 0 {
                        p(v, ",");
                    }
                    w(v, n);
                    p(v, "(");
                    w(v, &val.to_string());
                    p(v, ")");
                }
                p(v, "}");
            }
            lex_size_paren(v, size);
        }
        Type::OctetString { size } => {
            w(v, "OCTET");
            w(v, "STRING");
            lex_size_paren(v, size);
        }
        Type::CharString { cs, size } => {
            w(v, cs.asn_name());
            lex_size_paren(v, size);
        }
        Type::Sequence(c) => {
            w(v, "SEQUENCE");
            lex_comps(v, c, indent);
        }
        Type::Set(c) => {
            w(v, "SET");
            lex_comps(v, c, indent);
        }
        Type::SequenceOf { elem, size } | Type::SetOf { elem, size } => {
            w(v, if matches!(t, Type::SequenceOf { .. }) { "SEQUENCE" } else { "SET" });
            lex_size_paren(v, size);
            w(v, "OF");
            lex_type(v, elem, indent);
        }
        Type::Choice { root, ext } => {
            w(v, "CHOICE");
            p(v, "{");
            let mut first = true;
            let alt = |v: &mut Vec<Lex>, a: &Alt, first: &mut bool| {
                if !*first {
                    p(v, ",");
                }
                *first = false;
                v.push(Lex::Break(indent + 1));
                w(v, &a.name);
                lex_tag(v, &a.tag);
                lex_type(v, &a.ty, indent + 1);
            };
            for a in root {
                alt(v, a, &mut first);
            }
            if let Some(e) = ext {
                p(v, ",");
                v.push(Lex::Break(indent + 1));
                p(v, "...");
                for a in e {
                    alt(v, a, &mut first);
                }
            }
            v.push(Lex::Break(indent));
            p(v, "}");
        }
        Type::Ref(n) => w(v, n),
    }
}

fn lex_oid(v: &mut Vec<Lex>, oid: &Option<Vec<OidComp>>) {
    if let Some(oid) = oid {
        p(v, "{");
        for c in oid {
            match c {
                OidComp::Name(n) => w(v, n),
                OidComp::Num(n) => w(v, &n.to_string()),
                OidComp::NameNum(n, k) => {
                    w(v, n);
                    p(v, "(");
                    w(v, &k.to_string());
                    p(v, ")");
                }
            }
        }
        p(v, "}");
    }
}

pub fn lex_module(m: &Module) -> Vec<Lex> {
    let mut v = Vec::new();
    w(&mut v, &m.name);
    lex_oid(&mut v, &m.oid);
    w(&mut v, "DEFINITIONS");
    w(&mut v, "AUTOMATIC");
    w(&mut v, "TAGS");
    p(&mut v, "::=");
    w(&mut v, "BEGIN");
    v.push(Lex::Break(0));
    if !m.imports.is_empty() {
        w(&mut v, "IMPORTS");
        for imp in &m.imports {
            v.push(Lex::Break(1));
            for (i, what) in imp.what.iter().enumerate() {
                if i > 0 {
                    p(&mut v, ",");
                }
                w(&mut v, what);
            }
            w(&mut v, "FROM");
            w(&mut v, &imp.from);
            lex_oid(&mut v, &imp.from_oid);
        }
        p(&mut v, ";");
        v.push(Lex::Break(0));
    }
    for item in &m.order {
        match item {
            Item::Def(i) => {
                let d = &m.defs[*i];
                w(&mut v, &d.name);
                p(&mut v, "::=");
                lex_tag(&mut v, &d.tag);
                lex_type(&mut v, &d.ty, 0);
            }
            Item::Value(i) => {
                let val = &m.values[*i];
                w(&mut v, &val.name);
                lex_type(&mut v, &val.ty, 0);
                p(&mut v, "::=");
                lex_lit(&mut v, &val.lit);
            }
        }
        v.push(Lex::Break(0));
    }
    w(&mut v, "END");
    v
}

fn item_text(l: &Lex) -> String {
    match l {
        Lex::Word(s) => s.clone(),
        Lex::Punct(s) => s.to_string(),
        Lex::CStr(s) => format!("\"{}\"", s),
        Lex::QStr(s, c) => format!("'{}'{}", s, c),
        Lex::Break(_) => String::new(),
    }
}

fn ends_wordlike(l: &Lex) -> bool {
    matches!(l, Lex::Word(_) | Lex::QStr(..))
}
fn starts_wordlike(l: &Lex) -> bool {
    matches!(l, Lex::Word(_))
}

/// canonical layout: single spaces, one definition per line
pub fn print_canonical(items: &[Lex]) -> String {
    let mut s = String::new();
    let mut prev: Option<&Lex> = None;
    let mut at_line_start = true;
    for it in items {
        match it {
            Lex::Break(ind) => {
                s.push('\n');
                for _ in 0..*ind {
                    s.push_str("  ");
                }
                at_line_start = true;
                prev = None;
            }
            _ => {
                if !at_line_start && prev.is_some() {
                    s.push(' ');
                }
                s.push_str(&item_text(it));
                at_line_start = false;
                prev = Some(it);
            }
        }
    }
    s.push('\n');
    s
}

pub fn print_module(m: &Module) -> String {
    print_canonical(&lex_module(m))
}

// ---------------------------------------------------------------------------------------------
// layout engine + R-lexer

#[derive(Clone, Debug, PartialEq, Eq)]
pub enum RTok {
    Text(String),
    Sep(char),
}

#[derive(Clone, Debug, PartialEq, Eq)]
pub struct PlacedTok {
    pub tok: RTok,
    pub line: usize,
    pub col: usize,
}

pub const SEPARATOR_KINDS: &[&str] = &[
    "space",
    "tab",
    "lf",
    "crlf",
    "spaces",
    "line-comment",
    "block-comment-spaced",
    "block-comment-attached",
    "nested-comment",
    "block-comment-with-dashes",
    "multiline-comment",
    "line-comment-attached",
    "block-comment-stars",
    "banner-comment",
    "empty",
];

#[derive(Clone, Copy, Debug, PartialEq, Eq)]
pub enum LayoutStyle {
    /// every separator kind at random
    Mixed,
    /// only block comments (attached) between word-like neighbours, empty elsewhere
    OnlyBlockComments,
    /// CR LF everywhere
    CrLf,
    /// minimal: empty wherever allowed, else one space
    Minimal,
    /// whitespace only (no comments)
    WhitespaceOnly,
    /// comments always surrounded by whitespace
    SpacedComments,
}

pub struct Layout {
    pub text: String,
    pub toks: Vec<PlacedTok>,
    /// separator kinds used, for the coverage histogram
    pub kinds_used: Vec<&'static str>,
    /// separator kind placed before item i (index 0: the optional leading separator or "")
    pub boundary_kinds: Vec<&'static str>,
    /// index of the first token of item i
    pub item_tok_start: Vec<usize>,
    /// did any comment sit directly between two word-like items without whitespace?
    pub has_attached_comment_between_words: bool,
}

struct Cursor {
    text: String,
    line: usize,
    col: usize,
}

impl Cursor {
    fn push_str(&mut self, s: &str) {
        for c in s.chars() {
            self.text.push(c);
            if c == '\n' {
                self.line += 1;
                self.col = 1;
            } else {
                self.col += 1;
            }
        }
    }
}

const COMMENT_WORDS: &[&str] =
    &["c", "note", "x y", "INTEGER", "::=", "a, b", "'", "\"", "SEQUENCE {", "END", "1..2", "é"];

fn sep_text(kind: &str, rng: &mut Rng) -> String {
    let cw = *rng.pick(COMMENT_WORDS);
    match kind {
        "space" => " ".into(),
        "tab" => "\t".into(),
        "lf" => "\n".into(),
        "crlf" => "\r\n".into(),
        "spaces" => " ".repeat(rng.range(2, 5) as usize),
        "line-comment" => format!(" -- {}\n", cw),
        "block-comment-spaced" => format!(" /* {} */ ", cw),
        "block-comment-attached" => format!("/* {} */", cw),
        "nested-comment" => format!("/* a /* {} */ c */", cw),
        "block-comment-with-dashes" => format!("/* -- {} -- */", cw),
        "multiline-comment" => format!("/* {}\n  more /* in\n */ end */", cw),
        // directly attached to the preceding item; the next item starts in column 1 of the next line
        "line-comment-attached" => format!("-- {}\n", cw),
        "block-comment-stars" => match rng.below(4) {
            0 => "/***/".to_string(),
            1 => format!("/** {} **/", cw),
            2 => format!("/* {} **/", cw),
            _ => format!("/*** {} */", cw),
        },
        "banner-comment" => format!("/****\n * {}\n ****/", cw),
        "empty" => String::new(),
        _ => unreachable!(),
    }
}

/// Lay the items out with randomly chosen separators; returns text and the expected tokens with locations.
pub fn layout(items: &[Lex], style: LayoutStyle, rng: &mut Rng) -> Layout {
    let items: Vec<&Lex> = items.iter().filter(|l| !matches!(l, Lex::Break(_))).collect();
    let mut cur = Cursor { text: String::new(), line: 1, col: 1 };
    let mut toks = Vec::new();
    let mut kinds_used = Vec::new();
    let mut boundary_kinds: Vec<&'static str> = vec![""];
    let mut item_tok_start: Vec<usize> = Vec::new();
    let mut attached = false;
    // optional leading separator
    if style == LayoutStyle::Mixed && rng.chance(1, 3) {
        let k = *rng.pick(&["space", "lf", "line-comment", "block-comment-spaced", "crlf"]);
        kinds_used.push(k);
        boundary_kinds[0] = k;
        let t = sep_text(k, rng);
        cur.push_str(&t);
    }
    for (i, it) in items.iter().enumerate() {
        item_tok_start.push(toks.len());
        place_item(it, &mut cur, &mut toks);
        if i + 1 == items.len() {
            break;
        }
        let next = items[i + 1];
        let need = ends_wordlike(it) && starts_wordlike(next);
        let kind: &'static str = match style {
            LayoutStyle::Minimal => {
                if need {
                    "space"
                } else {
                    "empty"
                }
            }
            LayoutStyle::CrLf => "crlf",
            LayoutStyle::OnlyBlockComments => {
                if need {
                    *rng.pick(&["block-comment-attached", "nested-comment", "block-comment-with-dashes", "block-comment-stars", "banner-comment"])
                } else if rng.chance(1, 3) {
                    "block-comment-attached"
                } else {
                    "empty"
                }
            }
            LayoutStyle::WhitespaceOnly => {
                let ks: &[&'static str] = if need {
                    &["space", "tab", "lf", "crlf", "spaces"]
                } else {
                    &["space", "tab", "lf", "crlf", "spaces", "empty", "empty"]
                };
                *rng.pick(ks)
            }
            LayoutStyle::SpacedComments => {
                let ks: &[&'static str] = if need {
                    &["space", "lf", "line-comment", "block-comment-spaced", "crlf", "tab", "line-comment-attached"]
                } else {
                    &["space", "lf", "line-comment", "block-comment-spaced", "empty", "empty", "crlf", "line-comment-attached"]
                };
                *rng.pick(ks)
            }
            LayoutStyle::Mixed => loop {
                let k = *rng.pick(SEPARATOR_KINDS);
                if k == "empty" && need {
                    continue;
                }
                break k;
            },
        };
        if need
            && matches!(
                kind,
                "block-comment-attached" | "nested-comment" | "block-comment-with-dashes" | "multiline-comment" | "block-comment-stars" | "banner-comment"
            )
        {
            attached = true;
        }
        kinds_used.push(kind);
        boundary_kinds.push(kind);
        let t = sep_text(kind, rng);
        cur.push_str(&t);
    }
    // trailing: sometimes a comment at end of file without newline
    if style == LayoutStyle::Mixed || style == LayoutStyle::SpacedComments {
        match rng.below(4) {
            0 => cur.push_str("\n"),
            1 => cur.push_str(" -- end"),
            2 => cur.push_str(" /* end */"),
            _ => {}
        }
    } else {
        cur.push_str("\n");
    }
    Layout { text: cur.text, toks, kinds_used, boundary_kinds, item_tok_start, has_attached_comment_between_words: attached }
}

fn place_item(it: &Lex, cur: &mut Cursor, toks: &mut Vec<PlacedTok>) {
    match it {
        Lex::Word(s) => {
            toks.push(PlacedTok { tok: RTok::Text(s.clone()), line: cur.line, col: cur.col });
            cur.push_str(s);
        }
        Lex::Punct(s) => {
            for c in s.chars() {
                toks.push(PlacedTok { tok: RTok::Sep(c), line: cur.line, col: cur.col });
                cur.push_str(&c.to_string());
            }
        }
        Lex::CStr(s) => place_quoted(s, '"', cur, toks),
        Lex::QStr(s, suffix) => {
            place_quoted(s, '\'', cur, toks);
            toks.push(PlacedTok { tok: RTok::Text(suffix.to_string()), line: cur.line, col: cur.col });
            cur.push_str(&suffix.to_string());
        }
        Lex::Break(_) => {}
    }
}

pub const SEP_CHARS: &[char] = &[':', ';', '=', '(', ')', '{', '}', '.', ',', '[', ']', '\'', '"'];

fn place_quoted(s: &str, q: char, cur: &mut Cursor, toks: &mut Vec<PlacedTok>) {
    toks.push(PlacedTok { tok: RTok::Sep(q), line: cur.line, col: cur.col });
    cur.push_str(&q.to_string());
    let mut pending: Option<(String, usize, usize)> = None;
    for c in s.chars() {
        if SEP_CHARS.contains(&c) {
            if let Some((t, l, co)) = pending.take() {
                toks.push(PlacedTok { tok: RTok::Text(t), line: l, col: co });
            }
            toks.push(PlacedTok { tok: RTok::Sep(c), line: cur.line, col: cur.col });
        } else if c == ' ' || c == '\t' {
            if let Some((t, l, co)) = pending.take() {
                toks.push(PlacedTok { tok: RTok::Text(t), line: l, col: co });
            }
        } else {
            match &mut pending {
                Some((t, _, _)) => t.push(c),
                None => pending = Some((c.to_string(), cur.line, cur.col)),
            }
        }
        cur.push_str(&c.to_string());
    }
    if let Some((t, l, co)) = pending.take() {
        toks.push(PlacedTok { tok: RTok::Text(t), line: l, col: co });
    }
    toks.push(PlacedTok { tok: RTok::Sep(q), line: cur.line, col: cur.col });
    cur.push_str(&q.to_string());
}
