//! Self-contained PRNG (SplitMix64 seeding + xoshiro256**), so streams are stable across toolchains.

#[derive(Clone, Debug)]
pub struct Rng {
    s: [u64; 4],
}

pub fn splitmix64(state: &mut u64) -> u64 {
    *state = state.wrapping_add(0x9E37_79B9_7F4A_7C15);
    let mut z = *state;
    z = (z ^ (z >> 30)).wrapping_mul(0xBF58_476D_1CE4_E5B9);
    z = (z ^ (z >> 27)).wrapping_mul(0x94D0_49BB_1331_11EB);
    z ^ (z >> 31)
}

pub fn hash_str(s: &str) -> u64 {
    // FNV-1a
    let mut h: u64 = 0xcbf2_9ce4_8422_2325;
    for b in s.bytes() {
        h ^= b as u64;
        h = h.wrapping_mul(0x0000_0100_0000_01B3);
    }
    h
}

pub fn hash_bytes(s: &[u8]) -> u64 {
    let mut h: u64 = 0xcbf2_9ce4_8422_2325;
    for b in s {
        h ^= *b as u64;
        h = h.wrapping_mul(0x0000_0100_0000_01B3);
    }
    h
}

impl Rng {
    pub fn new(seed: u64) -> Self {
        let mut st = seed;
        let s = [
            splitmix64(&mut st),
            splitmix64(&mut st),
            splitmix64(&mut st),
            splitmix64(&mut st),
        ];
        Rng { s }
    }

    /// Derive an independent stream from a seed and a list of tags (property, shard, purpose).
    pub fn derive(seed: u64, tags: &[&str], idx: u64) -> Self {
        let mut st = seed ^ 0xA5A5_5A5A_1234_5678;
        for t in tags {
            st = splitmix64(&mut st) ^ hash_str(t);
        }
        st = splitmix64(&mut st) ^ idx.wrapping_mul(0x9E37_79B9_7F4A_7C15);
        Rng::new(splitmix64(&mut st))
    }

    pub fn next_u64(&mut self) -> u64 {
        let result = self.s[1].wrapping_mul(5).rotate_left(7).wrapping_mul(9);
        let t = self.s[1] << 17;
        self.s[2] ^= self.s[0];
        self.s[3] ^= self.s[1];
        self.s[1] ^= self.s[2];
        self.s[0] ^= self.s[3];
        self.s[2] ^= t;
        self.s[3] = self.s[3].rotate_left(45);
        result
    }

    /// uniform in 0..n (n > 0)
    pub fn below(&mut self, n: u64) -> u64 {
        if n <= 1 {
            return 0;
        }
        // rejection-free multiply-shift is good enough here
        ((self.next_u64() as u128 * n as u128) >> 64) as u64
    }

    pub fn usize_below(&mut self, n: usize) -> usize {
        self.below(n as u64) as usize
    }

    /// uniform in lo..=hi
    pub fn range_i128(&mut self, lo: i128, hi: i128) -> i128 {
        if hi <= lo {
            return lo;
        }
        let span = (hi - lo) as u128 + 1;
        if span == 0 || span > u64::MAX as u128 {
            let r = ((self.next_u64() as u128) << 64) | self.next_u64() as u128;
            if span == 0 {
                return lo.wrapping_add(r as i128);
            }
            return lo + (r % span) as i128;
        }
        lo + self.below(span as u64) as i128
    }

    pub fn range(&mut self, lo: u64, hi: u64) -> u64 {
        if hi <= lo {
            return lo;
        }
        lo + self.below(hi - lo + 1)
    }

    pub fn chance(&mut self, num: u64, den: u64) -> bool {
        self.below(den) < num
    }

    pub fn bool(&mut self) -> bool {
        self.next_u64() & 1 == 1
    }

    pub fn pick<'a, T>(&mut self, items: &'a [T]) -> &'a T {
        &items[self.usize_below(items.len())]
    }

    pub fn shuffle<T>(&mut self, items: &mut [T]) {
        for i in (1..items.len()).rev() {
            let j = self.usize_below(i + 1);
            items.swap(i, j);
        }
    }

    /// pick an index according to integer weights
    pub fn weighted(&mut self, weights: &[u32]) -> usize {
        let total: u64 = weights.iter().map(|w| *w as u64).sum();
        let mut r = self.below(total.max(1));
        for (i, w) in weights.iter().enumerate() {
            if r < *w as u64 {
                return i;
            }
            r -= *w as u64;
        }
        weights.len() - 1
    }

    pub fn bytes(&mut self, n: usize) -> Vec<u8> {
        let mut v = Vec::with_capacity(n);
        while v.len() < n {
            let x = self.next_u64().to_le_bytes();
            for b in x {
                if v.len() < n {
                    v.push(b);
                }
            }
        }
        v
    }
}
