//! R-bits: the naive bit-vector model (`Vec<bool>`) used as reference for every bit-level operation.

#[derive(Clone, Default, Debug, PartialEq, Eq, Hash)]
pub struct BitOut {
    pub bits: Vec<bool>,
}

impl BitOut {
    pub fn new() -> Self {
        Self::default()
    }
    pub fn len(&self) -> usize {
        self.bits.len()
    }
    pub fn is_empty(&self) -> bool {
        self.bits.is_empty()
    }
    pub fn push(&mut self, b: bool) {
        self.bits.push(b);
    }
    /// big-endian, `width` least significant bits of v
    pub fn push_uint(&mut self, v: u128, width: u32) {
        for i in (0..width).rev() {
            self.bits.push(if i >= 128 { false } else { (v >> i) & 1 == 1 });
        }
    }
    pub fn push_bytes(&mut self, bytes: &[u8]) {
        for b in bytes {
            self.push_uint(*b as u128, 8);
        }
    }
    pub fn extend(&mut self, other: &[bool]) {
        self.bits.extend_from_slice(other);
    }
    pub fn to_bytes(&self) -> Vec<u8> {
        bools_to_bytes(&self.bits)
    }
    pub fn pad_to_octet(&mut self) {
        while self.bits.len() % 8 != 0 {
            self.bits.push(false);
        }
    }
}

pub fn bools_to_bytes(bits: &[bool]) -> Vec<u8> {
    let mut out = vec![0u8; (bits.len() + 7) / 8];
    for (i, b) in bits.iter().enumerate() {
        if *b {
            out[i / 8] |= 0x80 >> (i % 8);
        }
    }
    out
}

pub fn bytes_to_bools(bytes: &[u8], nbits: usize) -> Vec<bool> {
    let mut v = Vec::with_capacity(nbits);
    for i in 0..nbits {
        let byte = bytes.get(i / 8).copied().unwrap_or(0);
        v.push(byte & (0x80 >> (i % 8)) != 0);
    }
    v
}

pub fn hex(bytes: &[u8]) -> String {
    let mut s = String::with_capacity(bytes.len() * 2);
    for b in bytes {
        s.push_str(&format!("{:02x}", b));
    }
    s
}

pub fn unhex(s: &str) -> Vec<u8> {
    let s: Vec<u8> = s.bytes().filter(|c| c.is_ascii_hexdigit()).collect();
    s.chunks(2)
        .map(|c| u8::from_str_radix(std::str::from_utf8(c).unwrap(), 16).unwrap())
        .collect()
}

pub fn bitstr(bits: &[bool]) -> String {
    bits.iter().map(|b| if *b { '1' } else { '0' }).collect()
}

#[derive(Clone, Debug, PartialEq, Eq)]
pub enum DecErr {
    Eof,
    Malformed(String),
    UnknownExtension(String),
}

pub struct BitIn<'a> {
    pub bits: &'a [bool],
    pub pos: usize,
}

impl<'a> BitIn<'a> {
    pub fn new(bits: &'a [bool]) -> Self {
        BitIn { bits, pos: 0 }
    }
    pub fn remaining(&self) -> usize {
        self.bits.len() - self.pos
    }
    pub fn bit(&mut self) -> Result<bool, DecErr> {
        if self.pos < self.bits.len() {
            self.pos += 1;
            Ok(self.bits[self.pos - 1])
        } else {
            Err(DecErr::Eof)
        }
    }
    pub fn uint(&mut self, width: u32) -> Result<u128, DecErr> {
        if width > 128 {
            return Err(DecErr::Malformed("width>128".into()));
        }
        let mut v: u128 = 0;
        for _ in 0..width {
            v = (v << 1) | self.bit()? as u128;
        }
        Ok(v)
    }
    pub fn bytes(&mut self, n: usize) -> Result<Vec<u8>, DecErr> {
        if self.remaining() < n.saturating_mul(8) {
            return Err(DecErr::Eof);
        }
        let mut v = Vec::with_capacity(n);
        for _ in 0..n {
            v.push(self.uint(8)? as u8);
        }
        Ok(v)
    }
    pub fn take(&mut self, n: usize) -> Result<&'a [bool], DecErr> {
        if self.remaining() < n {
            return Err(DecErr::Eof);
        }
        let s = &self.bits[self.pos..self.pos + n];
        self.pos += n;
        Ok(s)
    }
}

/// R-bits write: copy `len` bits from (src, src_off) to (dst, dst_pos); None if out of range.
pub fn model_copy(src: &[bool], src_off: usize, dst: &mut [bool], dst_pos: usize, len: usize) -> bool {
    let se = match src_off.checked_add(len) {
        Some(v) => v,
        None => return false,
    };
    let de = match dst_pos.checked_add(len) {
        Some(v) => v,
        None => return false,
    };
    if se > src.len() || de > dst.len() {
        return false;
    }
    for i in 0..len {
        dst[dst_pos + i] = src[src_off + i];
    }
    true
}
