//! R-proto: an independent reading of proto3 - a parser and validator for `.proto` text, a wire-format decoder
//! driven by the parsed schema, and a matcher that compares what the decoder sees with an abstract value.
//! Nothing here depends on asn1rs.
use crate::schema::*;
use crate::value::Val;
use std::collections::{BTreeMap, BTreeSet};

// ------------------------------------------------------------------------------------------------
// schema text

#[derive(Clone, Debug, PartialEq)]
pub enum Tok {
    Ident(String),
    Int(u64),
    Str(String),
    Sym(char),
}

pub fn tokenize(text: &str) -> Result<Vec<Tok>, String> {
    let cs: Vec<char> = text.chars().collect();
    let mut i = 0;
    let mut out = Vec::new();
    while i < cs.len() {
        let c = cs[i];
        if c.is_whitespace() {
            i += 1;
        } else if c == '/' && cs.get(i + 1) == Some(&'/') {
            while i < cs.len() && cs[i] != '\n' {
                i += 1;
            }
        } else if c == '/' && cs.get(i + 1) == Some(&'*') {
            i += 2;
            while i + 1 < cs.len() && !(cs[i] == '*' && cs[i + 1] == '/') {
                i += 1;
            }
            i += 2;
        } else if c.is_ascii_alphabetic() || c == '_' {
            let s = i;
            while i < cs.len() && (cs[i].is_ascii_alphanumeric() || cs[i] == '_' || cs[i] == '.') {
                i += 1;
            }
            out.push(Tok::Ident(cs[s..i].iter().collect()));
        } else if c.is_ascii_digit() {
            let s = i;
            while i < cs.len() && cs[i].is_ascii_alphanumeric() {
                i += 1;
            }
            let t: String = cs[s..i].iter().collect();
            out.push(Tok::Int(t.parse::<u64>().map_err(|_| format!("bad number '{}'", t))?));
        } else if c == '\'' || c == '"' {
            let q = c;
            let s = i + 1;
            i += 1;
            while i < cs.len() && cs[i] != q {
                i += 1;
            }
            if i >= cs.len() {
                return Err("unterminated string".into());
            }
            out.push(Tok::Str(cs[s..i].iter().collect()));
            i += 1;
        } else if "={};<>[],()-".contains(c) {
            out.push(Tok::Sym(c));
            i += 1;
        } else {
            return Err(format!("unexpected character '{}'", c));
        }
    }
    Ok(out)
}

#[derive(Clone, Debug, PartialEq)]
pub struct PField {
    pub repeated: bool,
    /// how often the `repeated` label was written (2 = `repeated repeated`)
    pub repeated_labels: usize,
    pub ty: String,
    pub name: String,
    pub number: u64,
    /// name of the enclosing oneof
    pub oneof: Option<String>,
}

#[derive(Clone, Debug, PartialEq)]
pub enum PDef {
    Message { name: String, fields: Vec<PField>, oneofs: Vec<String> },
    Enum { name: String, values: Vec<(String, i64)> },
}

impl PDef {
    pub fn name(&self) -> &str {
        match self {
            PDef::Message { name, .. } | PDef::Enum { name, .. } => name,
        }
    }
}

#[derive(Clone, Debug, Default, PartialEq)]
pub struct PFile {
    pub file: String,
    pub syntax: Option<String>,
    pub package: Option<String>,
    pub imports: Vec<String>,
    pub defs: Vec<PDef>,
}

pub const SCALARS: &[&str] = &["double", "float", "int32", "int64", "uint32", "uint64", "sint32", "sint64", "fixed32", "fixed64", "sfixed32", "sfixed64", "bool", "string", "bytes"];

struct P {
    t: Vec<Tok>,
    i: usize,
}

impl P {
    fn peek(&self) -> Option<&Tok> {
        self.t.get(self.i)
    }
    fn next(&mut self) -> Result<Tok, String> {
        let t = self.t.get(self.i).cloned().ok_or("unexpected end of file")?;
        self.i += 1;
        Ok(t)
    }
    fn sym(&mut self, c: char) -> Result<(), String> {
        match self.next()? {
            Tok::Sym(x) if x == c => Ok(()),
            other => Err(format!("expected '{}', found {:?}", c, other)),
        }
    }
    fn ident(&mut self) -> Result<String, String> {
        match self.next()? {
            Tok::Ident(s) => Ok(s),
            other => Err(format!("expected an identifier, found {:?}", other)),
        }
    }
    fn int(&mut self) -> Result<i64, String> {
        match self.next()? {
            Tok::Int(n) => Ok(n as i64),
            Tok::Sym('-') => match self.next()? {
                Tok::Int(n) => Ok(-(n as i64)),
                other => Err(format!("expected a number, found {:?}", other)),
            },
            other => Err(format!("expected a number, found {:?}", other)),
        }
    }
    fn field(&mut self, oneof: Option<String>) -> Result<PField, String> {
        let mut repeated_labels = 0;
        let mut ty = self.ident()?;
        while ty == "repeated" {
            repeated_labels += 1;
            ty = self.ident()?;
        }
        if ty == "optional" || ty == "required" {
            return Err(format!("label '{}' is not part of the proto3 subset asn1rs targets", ty));
        }
        let name = self.ident()?;
        self.sym('=')?;
        let number = self.int()?;
        if number < 0 {
            return Err("negative field number".into());
        }
        self.sym(';')?;
        Ok(PField { repeated: repeated_labels > 0, repeated_labels, ty, name, number: number as u64, oneof })
    }
}

pub fn parse_proto(file: &str, text: &str) -> Result<PFile, String> {
    let mut p = P { t: tokenize(text)?, i: 0 };
    let mut f = PFile { file: file.to_string(), ..Default::default() };
    let mut first = true;
    while p.peek().is_some() {
        let kw = p.ident()?;
        match kw.as_str() {
            "syntax" => {
                if !first {
                    return Err("the syntax statement must be the first statement".into());
                }
                p.sym('=')?;
                match p.next()? {
                    Tok::Str(s) => f.syntax = Some(s),
                    other => return Err(format!("expected a string after syntax =, found {:?}", other)),
                }
                p.sym(';')?;
            }
            "package" => {
                if f.package.is_some() {
                    return Err("second package statement".into());
                }
                f.package = Some(p.ident()?);
                p.sym(';')?;
            }
            "import" => {
                match p.next()? {
                    Tok::Str(s) => f.imports.push(s),
                    other => return Err(format!("expected a string after import, found {:?}", other)),
                }
                p.sym(';')?;
            }
            "message" => {
                let name = p.ident()?;
                p.sym('{')?;
                let mut fields = Vec::new();
                let mut oneofs = Vec::new();
                loop {
                    match p.peek() {
                        Some(Tok::Sym('}')) => {
                            p.i += 1;
                            break;
                        }
                        Some(Tok::Ident(s)) if s == "oneof" => {
                            p.i += 1;
                            let oname = p.ident()?;
                            p.sym('{')?;
                            let mut n = 0;
                            loop {
                                if let Some(Tok::Sym('}')) = p.peek() {
                                    p.i += 1;
                                    break;
                                }
                                fields.push(p.field(Some(oname.clone()))?);
                                n += 1;
                            }
                            if n == 0 {
                                return Err(format!("oneof {} has no fields", oname));
                            }
                            // a ';' after the closing brace of a oneof is an empty statement
                            if let Some(Tok::Sym(';')) = p.peek() {
                                p.i += 1;
                            }
                            oneofs.push(oname);
                        }
                        Some(_) => fields.push(p.field(None)?),
                        None => return Err(format!("message {} is not closed", name)),
                    }
                }
                f.defs.push(PDef::Message { name, fields, oneofs });
            }
            "enum" => {
                let name = p.ident()?;
                p.sym('{')?;
                let mut values = Vec::new();
                loop {
                    if let Some(Tok::Sym('}')) = p.peek() {
                        p.i += 1;
                        break;
                    }
                    let vname = p.ident()?;
                    p.sym('=')?;
                    let n = p.int()?;
                    p.sym(';')?;
                    values.push((vname, n));
                }
                f.defs.push(PDef::Enum { name, values });
            }
            other => return Err(format!("unexpected statement '{}'", other)),
        }
        first = false;
    }
    Ok(f)
}

/// ASN.1 component identifier -> protobuf field name (lower snake case)
pub fn snake_name(name: &str) -> String {
    let mut out = String::new();
    let mut prev_lower_or_digit = false;
    for c in name.chars() {
        if c == '-' {
            out.push('_');
            prev_lower_or_digit = false;
        } else if c.is_uppercase() {
            if prev_lower_or_digit {
                out.push('_');
            }
            out.extend(c.to_lowercase());
            prev_lower_or_digit = false;
        } else {
            out.push(c);
            prev_lower_or_digit = true;
        }
    }
    out
}

fn valid_ident(s: &str) -> bool {
    let mut cs = s.chars();
    matches!(cs.next(), Some(c) if c.is_ascii_alphabetic() || c == '_') && cs.all(|c| c.is_ascii_alphanumeric() || c == '_')
}

fn json_name(s: &str) -> String {
    let mut out = String::new();
    let mut up = false;
    for c in s.chars() {
        if c == '_' {
            up = true;
        } else if up {
            out.extend(c.to_uppercase());
            up = false;
        } else {
            out.push(c);
        }
    }
    out
}

/// resolve a type name used in `file` against the files of the set
pub fn resolve_type<'a>(files: &'a [PFile], file: &'a PFile, ty: &str) -> Option<(&'a PFile, &'a PDef)> {
    let visible: Vec<&PFile> = std::iter::once(file).chain(files.iter().filter(|f| file.imports.iter().any(|i| *i == f.file))).collect();
    // relative name in the own package
    if !ty.contains('.') {
        for f in std::iter::once(file).chain(files.iter().filter(|f| f.package == file.package && file.imports.iter().any(|i| *i == f.file))) {
            if let Some(d) = f.defs.iter().find(|d| d.name() == ty) {
                return Some((f, d));
            }
        }
        return None;
    }
    // fully qualified (optionally with a leading dot)
    let ty = ty.trim_start_matches('.');
    for f in visible {
        let pkg = f.package.clone().unwrap_or_default();
        if let Some(rest) = ty.strip_prefix(&format!("{}.", pkg)) {
            if let Some(d) = f.defs.iter().find(|d| d.name() == rest) {
                return Some((f, d));
            }
        }
    }
    None
}

/// proto3 validity of a set of files that import each other: returns (rule, detail) for every breach
pub fn validate(files: &[PFile]) -> Vec<(String, String)> {
    let mut out = Vec::new();
    let mut bad = |rule: &str, detail: String| out.push((rule.to_string(), detail));
    for f in files {
        if f.syntax.as_deref() != Some("proto3") {
            bad("syntax-not-proto3", format!("{}: {:?}", f.file, f.syntax));
        }
        if let Some(p) = &f.package {
            if p.is_empty() || !p.split('.').all(valid_ident) {
                bad("package-name-invalid", format!("{}: package {}", f.file, p));
            }
        }
        for i in &f.imports {
            if !files.iter().any(|o| o.file == *i) {
                bad("import-of-unknown-file", format!("{}: import '{}'", f.file, i));
            }
        }
        // symbols of the package scope: messages, enums, and (C++ scoping) enum values
        let mut symbols: BTreeMap<String, &str> = BTreeMap::new();
        for other in files.iter().filter(|o| o.package == f.package) {
            if other.file != f.file && !f.imports.iter().any(|i| *i == other.file) {
                continue;
            }
            if other.file != f.file {
                continue; // conflicts are reported for the file that defines them
            }
            for d in &other.defs {
                if symbols.insert(d.name().to_string(), "type").is_some() {
                    bad("duplicate-symbol-in-package", format!("{}: {}", f.file, d.name()));
                }
                if let PDef::Enum { values, .. } = d {
                    for (v, _) in values {
                        if symbols.insert(v.clone(), "enum value").is_some() {
                            bad("duplicate-symbol-in-package", format!("{}: enum value {} of {}", f.file, v, d.name()));
                        }
                    }
                }
            }
        }
        for d in &f.defs {
            if !valid_ident(d.name()) {
                bad("identifier-invalid", format!("{}: {}", f.file, d.name()));
            }
            match d {
                PDef::Enum { name, values } => {
                    if values.is_empty() {
                        bad("enum-without-values", format!("{}: {}", f.file, name));
                    } else if values[0].1 != 0 {
                        bad("enum-first-value-not-zero", format!("{}: {}.{} = {}", f.file, name, values[0].0, values[0].1));
                    }
                    let mut nums = BTreeSet::new();
                    for (v, n) in values {
                        if !valid_ident(v) {
                            bad("identifier-invalid", format!("{}: enum value {}", f.file, v));
                        }
                        if !nums.insert(*n) {
                            bad("enum-number-duplicate", format!("{}: {}.{} = {}", f.file, name, v, n));
                        }
                        if *n < i32::MIN as i64 || *n > i32::MAX as i64 {
                            bad("enum-number-out-of-range", format!("{}: {}.{} = {}", f.file, name, v, n));
                        }
                    }
                }
                PDef::Message { name, fields, oneofs } => {
                    let mut numbers = BTreeSet::new();
                    let mut names = BTreeSet::new();
                    let mut jsons = BTreeSet::new();
                    for o in oneofs {
                        if !valid_ident(o) {
                            bad("identifier-invalid", format!("{}: oneof {} in {}", f.file, o, name));
                        }
                        if !names.insert(o.clone()) {
                            bad("field-name-duplicate", format!("{}: {}.{}", f.file, name, o));
                        }
                    }
                    for fl in fields {
                        if !valid_ident(&fl.name) {
                            bad("identifier-invalid", format!("{}: field {}.{}", f.file, name, fl.name));
                        }
                        if !names.insert(fl.name.clone()) {
                            bad("field-name-duplicate", format!("{}: {}.{}", f.file, name, fl.name));
                        }
                        if !jsons.insert(json_name(&fl.name)) {
                            bad("field-json-name-conflict", format!("{}: {}.{}", f.file, name, fl.name));
                        }
                        if fl.number == 0 || fl.number > 536_870_911 || (19_000..=19_999).contains(&fl.number) {
                            bad("field-number-invalid", format!("{}: {}.{} = {}", f.file, name, fl.name, fl.number));
                        }
                        if !numbers.insert(fl.number) {
                            bad("field-number-duplicate", format!("{}: {}.{} = {}", f.file, name, fl.name, fl.number));
                        }
                        if fl.repeated_labels > 1 {
                            bad("repeated-repeated", format!("{}: {}.{}", f.file, name, fl.name));
                        }
                        if fl.repeated && fl.oneof.is_some() {
                            bad("repeated-inside-oneof", format!("{}: {}.{}", f.file, name, fl.name));
                        }
                        if !SCALARS.contains(&fl.ty.as_str()) {
                            if fl.ty.split('.').filter(|s| !s.is_empty()).any(|s| !valid_ident(s)) {
                                bad("identifier-invalid", format!("{}: type {} of {}.{}", f.file, fl.ty, name, fl.name));
                            } else if resolve_type(files, f, &fl.ty).is_none() {
                                bad("type-unresolved", format!("{}: {} {}.{}", f.file, fl.ty, name, fl.name));
                            }
                        }
                    }
                }
            }
        }
    }
    out
}

// ------------------------------------------------------------------------------------------------
// wire format

#[derive(Clone, Debug, PartialEq)]
pub enum Wire {
    Varint(u64),
    Fixed64(u64),
    Len(Vec<u8>),
    Fixed32(u32),
}

impl Wire {
    pub fn wire_type(&self) -> u8 {
        match self {
            Wire::Varint(_) => 0,
            Wire::Fixed64(_) => 1,
            Wire::Len(_) => 2,
            Wire::Fixed32(_) => 5,
        }
    }
}

pub fn read_varint(b: &[u8], i: &mut usize) -> Result<u64, String> {
    let mut v: u64 = 0;
    for k in 0..10 {
        let byte = *b.get(*i).ok_or("truncated varint")?;
        *i += 1;
        if k == 9 && byte > 1 {
            return Err("varint exceeds 64 bits".into());
        }
        v |= ((byte & 0x7F) as u64) << (7 * k);
        if byte & 0x80 == 0 {
            return Ok(v);
        }
    }
    Err("varint longer than 10 octets".into())
}

/// generic wire-level split of a message into (field number, value) in order of appearance
pub fn split_message(b: &[u8]) -> Result<Vec<(u64, Wire)>, String> {
    let mut i = 0;
    let mut out = Vec::new();
    while i < b.len() {
        let key = read_varint(b, &mut i)?;
        let number = key >> 3;
        if number == 0 {
            return Err("field number 0".into());
        }
        let w = match key & 7 {
            0 => Wire::Varint(read_varint(b, &mut i)?),
            1 => {
                let s = b.get(i..i + 8).ok_or("truncated fixed64")?;
                i += 8;
                Wire::Fixed64(u64::from_le_bytes(s.try_into().unwrap()))
            }
            2 => {
                let n = read_varint(b, &mut i)? as usize;
                let s = b.get(i..i.checked_add(n).ok_or("length overflow")?).ok_or("length-delimited field reaches beyond the message")?;
                i += n;
                Wire::Len(s.to_vec())
            }
            5 => {
                let s = b.get(i..i + 4).ok_or("truncated fixed32")?;
                i += 4;
                Wire::Fixed32(u32::from_le_bytes(s.try_into().unwrap()))
            }
            t => return Err(format!("wire type {}", t)),
        };
        out.push((number, w));
    }
    Ok(out)
}

fn unzigzag(v: u64) -> i128 {
    ((v >> 1) as i64 ^ -((v & 1) as i64)) as i128
}

/// what a conforming parser hands to the application for a scalar integer field of the declared type
fn scalar_int(ty: &str, w: &Wire) -> Result<i128, String> {
    let v = match w {
        Wire::Varint(v) => *v,
        other => return Err(format!("wire type {} for a {} field", other.wire_type(), ty)),
    };
    Ok(match ty {
        "uint64" => v as i128,
        "uint32" => (v as u32) as i128,
        "int64" => (v as i64) as i128,
        "int32" => (v as i32) as i128,
        "sint64" => unzigzag(v),
        "sint32" => unzigzag((v as u32) as u64) as i32 as i128,
        "bool" => (v != 0) as i128,
        _ => return Err(format!("{} is not an integer type", ty)),
    })
}

// ------------------------------------------------------------------------------------------------
// matching the decoded message with the abstract value

pub struct Matcher<'a> {
    pub u: &'a Universe,
    pub files: &'a [PFile],
    /// file index per module index of the universe
    pub file_of_module: &'a [usize],
}

type M = Result<(), String>;

fn is_default(v: &Val) -> bool {
    match v {
        Val::Bool(b) => !*b,
        Val::Null => true,
        Val::Int(i) => *i == 0,
        Val::Enum(i) => *i == 0,
        Val::Bits(b) => b.is_empty(),
        Val::Bytes(b) => b.is_empty(),
        Val::Str(s) => s.is_empty(),
        Val::List(l) => l.is_empty(),
        _ => false,
    }
}

impl<'a> Matcher<'a> {
    fn file(&self, mi: usize) -> Result<&'a PFile, String> {
        self.file_of_module.get(mi).and_then(|i| self.files.get(*i)).ok_or_else(|| "proto-file-missing-for-module".to_string())
    }

    /// top level: the bytes of a value of definition `def` of module `mi` against message `def`
    pub fn match_top(&self, mi: usize, def: &str, v: &Val, bytes: &[u8]) -> M {
        let file = self.file(mi)?;
        let d = self.u.modules[mi].def(def).ok_or("definition-missing")?;
        let pd = file.defs.iter().find(|p| p.name() == def).ok_or_else(|| format!("message-missing:{}", d.ty.kind_name()))?;
        self.match_def(mi, &d.ty, v, file, pd, bytes, 0)
    }

    /// a definition body against the message/enum declared for it
    #[allow(clippy::too_many_arguments)]
    fn match_def(&self, mi: usize, t: &Type, v: &Val, file: &'a PFile, pd: &'a PDef, bytes: &[u8], depth: usize) -> M {
        if depth > 60 {
            return Ok(());
        }
        let (fields, oneofs) = match pd {
            PDef::Message { fields, oneofs, .. } => (fields, oneofs),
            PDef::Enum { .. } => return Err(format!("declared-as-enum-but-used-as-message:{}", t.kind_name())),
        };
        let entries = split_message(bytes).map_err(|e| format!("wire-format:{}", e))?;
        let by_number = |n: u64| -> Vec<&Wire> { entries.iter().filter(|(k, _)| *k == n).map(|(_, w)| w).collect() };
        for (n, _) in &entries {
            if !fields.iter().any(|f| f.number == *n) {
                return Err(format!("field-number-not-declared:{}", t.kind_name()));
            }
        }
        match (t, v) {
            (Type::Sequence(c), Val::Seq(vals)) | (Type::Set(c), Val::Seq(vals)) => {
                if fields.len() != c.len() || !oneofs.is_empty() {
                    return Err(format!("message-shape:{}:{}-components-vs-{}-fields", t.kind_name(), c.len(), fields.len()));
                }
                for (k, f) in fields.iter().enumerate() {
                    if f.number != k as u64 + 1 {
                        return Err(format!("field-number-not-position+1:{}", t.kind_name()));
                    }
                }
                // a user reads a component through the field that carries its name
                for (i, comp) in c.all().enumerate() {
                    let want = snake_name(&comp.name);
                    let f = match fields.iter().find(|f| f.name == want) {
                        Some(f) => f,
                        None => return Err(format!("field-name-not-found:{}", t.kind_name())),
                    };
                    let x = vals.get(i).and_then(|x| x.as_ref());
                    self.match_field(mi, &comp.ty, x, file, f, &by_number(f.number), depth + 1)?;
                }
                Ok(())
            }
            (Type::Choice { root, ext }, Val::Choice(idx, inner)) => {
                let alts: Vec<&Alt> = root.iter().chain(ext.iter().flatten()).collect();
                if oneofs.len() != 1 || fields.len() != alts.len() || fields.iter().any(|f| f.oneof.is_none()) {
                    return Err("message-shape:CHOICE:not-a-single-oneof".into());
                }
                for (j, f) in fields.iter().enumerate() {
                    if f.number != j as u64 + 1 {
                        return Err("oneof-number-not-position+1:CHOICE".into());
                    }
                    if j != *idx && !by_number(f.number).is_empty() {
                        return Err("oneof-member-other-than-the-selected-one-present:CHOICE".into());
                    }
                }
                let f = &fields[*idx];
                let e = by_number(f.number);
                if e.is_empty() {
                    // nothing on the wire names the alternative
                    return Err(format!("oneof-selection-not-on-the-wire:{}", self.kind(mi, &alts[*idx].ty)));
                }
                self.match_field(mi, &alts[*idx].ty, Some(inner), file, f, &e, depth + 1)
            }
            (Type::Enumerated { .. }, _) => Err("top-level-enumerated".into()),
            _ => {
                // wrapped in a message with one field
                if fields.len() != 1 || fields[0].number != 1 || fields[0].oneof.is_some() {
                    return Err(format!("message-shape:{}:not-a-single-field-wrapper", t.kind_name()));
                }
                self.match_field(mi, t, Some(v), file, &fields[0], &by_number(1), depth + 1)
            }
        }
    }

    fn kind(&self, mi: usize, t: &Type) -> &'static str {
        match t {
            Type::Ref(n) => match self.u.lookup_def(mi, n) {
                Some((dmi, d)) => self.kind(dmi, &d.ty),
                None => "?",
            },
            other => other.kind_name(),
        }
    }

    /// one component / alternative / element against the entries carrying its field number
    #[allow(clippy::too_many_arguments)]
    fn match_field(&self, mi: usize, t: &Type, v: Option<&Val>, file: &'a PFile, f: &'a PField, entries: &[&Wire], depth: usize) -> M {
        let kind = self.kind(mi, t);
        let v = match v {
            None => {
                return if entries.is_empty() { Ok(()) } else { Err(format!("absent-component-on-the-wire:{}", kind)) };
            }
            Some(v) => v,
        };
        // lists
        if let (Type::SequenceOf { elem, .. }, Val::List(l)) | (Type::SetOf { elem, .. }, Val::List(l)) = (t, v) {
            if !f.repeated {
                return Err(format!("list-not-declared-repeated:{}", self.kind(mi, elem)));
            }
            if f.repeated_labels > 1 {
                return Err("list-of-list-declared-repeated-repeated".into());
            }
            // packed scalars: one LEN entry holding all varints
            let mut items: Vec<Wire> = Vec::new();
            let scalar = matches!(f.ty.as_str(), "uint32" | "uint64" | "sint32" | "sint64" | "int32" | "int64" | "bool") || matches!(resolve_type(self.files, file, &f.ty), Some((_, PDef::Enum { .. })));
            for e in entries {
                match e {
                    Wire::Len(b) if scalar => {
                        let mut i = 0;
                        while i < b.len() {
                            items.push(Wire::Varint(read_varint(b, &mut i).map_err(|e| format!("wire-format:packed:{}", e))?));
                        }
                    }
                    other => items.push((*other).clone()),
                }
            }
            if items.len() != l.len() {
                return Err(format!("list-length:{}", self.kind(mi, elem)));
            }
            let single = PField { repeated: false, repeated_labels: 0, ..f.clone() };
            // `single` lives only for this call; matching needs the same lifetime as the file, so match inline
            for (x, w) in l.iter().zip(items.iter()) {
                self.match_single(mi, elem, x, file, &single, Some(w), depth + 1).map_err(|e| format!("list>{}", e))?;
            }
            return Ok(());
        }
        if f.repeated {
            return Err(format!("declared-repeated-but-not-a-list:{}", kind));
        }
        if entries.len() > 1 {
            return Err(format!("singular-field-written-more-than-once:{}", kind));
        }
        self.match_single(mi, t, v, file, f, entries.first().copied(), depth)
    }

    #[allow(clippy::too_many_arguments)]
    fn match_single(&self, mi: usize, t: &Type, v: &Val, file: &'a PFile, f: &PField, entry: Option<&Wire>, depth: usize) -> M {
        let kind = self.kind(mi, t);
        let declared_kind_err = |want: &str| Err(format!("declared-type:{}-declared-{}-wanted-{}", kind, if SCALARS.contains(&f.ty.as_str()) { f.ty.as_str() } else { "named" }, want));
        match (t, v) {
            (Type::Ref(n), _) => {
                let (dmi, d) = self.u.lookup_def(mi, n).ok_or("reference-unresolved")?;
                let (pfile, pd) = match resolve_type(self.files, file, &f.ty) {
                    Some(x) => x,
                    None => return declared_kind_err("a reference to the definition"),
                };
                if pd.name() != n {
                    return Err(format!("reference-names-other-definition:{}", kind));
                }
                match (&d.ty, pd) {
                    (Type::Enumerated { .. }, PDef::Enum { .. }) => self.match_enum(&d.ty, v, pd, entry),
                    (_, PDef::Message { .. }) => match entry {
                        Some(Wire::Len(b)) => self.match_def(dmi, &d.ty, v, pfile, pd, b, depth + 1),
                        Some(other) => Err(format!("wire-type:{}-for-message-{}", other.wire_type(), kind)),
                        None => {
                            // an omitted sub-message equals the empty message
                            self.match_def(dmi, &d.ty, v, pfile, pd, &[], depth + 1)
                        }
                    },
                    _ => Err(format!("declared-kind-mismatch:{}", kind)),
                }
            }
            (Type::Sequence(_), _) | (Type::Set(_), _) | (Type::Choice { .. }, _) => {
                let (pfile, pd) = match resolve_type(self.files, file, &f.ty) {
                    Some(x) => x,
                    None => return declared_kind_err("a message"),
                };
                match entry {
                    Some(Wire::Len(b)) => self.match_def(mi, t, v, pfile, pd, b, depth + 1),
                    Some(other) => Err(format!("wire-type:{}-for-message-{}", other.wire_type(), kind)),
                    None => self.match_def(mi, t, v, pfile, pd, &[], depth + 1),
                }
            }
            (Type::Enumerated { .. }, _) => {
                let (_, pd) = match resolve_type(self.files, file, &f.ty) {
                    Some(x) => x,
                    None => return declared_kind_err("an enum"),
                };
                self.match_enum(t, v, pd, entry)
            }
            (Type::Integer { .. }, Val::Int(x)) => {
                if !matches!(f.ty.as_str(), "uint32" | "uint64" | "sint32" | "sint64" | "int32" | "int64") {
                    return declared_kind_err("an integer type");
                }
                let got = match entry {
                    None => 0,
                    Some(w) => scalar_int(&f.ty, w).map_err(|e| format!("wire-type:INTEGER:{}", e.split(' ').take(3).collect::<Vec<_>>().join("-")))?,
                };
                if got != *x {
                    return Err(format!("value:INTEGER-as-{}", f.ty));
                }
                Ok(())
            }
            (Type::Boolean, Val::Bool(b)) => {
                if f.ty != "bool" {
                    return declared_kind_err("bool");
                }
                let got = match entry {
                    None => false,
                    Some(Wire::Varint(v)) => *v != 0,
                    Some(other) => return Err(format!("wire-type:{}-for-bool", other.wire_type())),
                };
                if got != *b {
                    return Err("value:BOOLEAN".into());
                }
                Ok(())
            }
            (Type::CharString { .. }, Val::Str(s)) => {
                if f.ty != "string" {
                    return declared_kind_err("string");
                }
                let got = match entry {
                    None => String::new(),
                    Some(Wire::Len(b)) => String::from_utf8(b.clone()).map_err(|_| "value:string-not-utf8".to_string())?,
                    Some(other) => return Err(format!("wire-type:{}-for-string", other.wire_type())),
                };
                if got != *s {
                    return Err(format!("value:{}", kind));
                }
                Ok(())
            }
            (Type::OctetString { .. }, Val::Bytes(x)) => {
                if f.ty != "bytes" {
                    return declared_kind_err("bytes");
                }
                let got = match entry {
                    None => Vec::new(),
                    Some(Wire::Len(b)) => b.clone(),
                    Some(other) => return Err(format!("wire-type:{}-for-bytes", other.wire_type())),
                };
                if got != *x {
                    return Err("value:OCTET STRING".into());
                }
                Ok(())
            }
            (Type::BitString { .. }, Val::Bits(bits)) => {
                // asn1rs's documented convention (BitsReprByBytesAndBitsLen): the bits, padded to octets, followed by the bit
                // count as 8 octets big endian
                if f.ty != "bytes" {
                    return declared_kind_err("bytes");
                }
                let got = match entry {
                    None => {
                        return if bits.is_empty() { Ok(()) } else { Err("value:BIT STRING".into()) };
                    }
                    Some(Wire::Len(b)) => b.clone(),
                    Some(other) => return Err(format!("wire-type:{}-for-bytes", other.wire_type())),
                };
                let mut want = crate::bits::bools_to_bytes(bits);
                want.extend_from_slice(&(bits.len() as u64).to_be_bytes());
                if got != want {
                    return Err("value:BIT STRING".into());
                }
                Ok(())
            }
            (Type::Null, Val::Null) => {
                if f.ty != "bytes" {
                    return declared_kind_err("bytes");
                }
                match entry {
                    None => Ok(()),
                    Some(Wire::Len(b)) if b.is_empty() => Ok(()),
                    Some(_) => Err("value:NULL-not-empty".into()),
                }
            }
            (Type::SequenceOf { .. }, _) | (Type::SetOf { .. }, _) => Err("list-directly-in-list".into()),
            _ => Err(format!("value-kind-mismatch:{}", kind)),
        }
    }

    fn match_enum(&self, t: &Type, v: &Val, pd: &PDef, entry: Option<&Wire>) -> M {
        let (values, idx) = match (pd, v) {
            (PDef::Enum { values, .. }, Val::Enum(i)) => (values, *i),
            _ => return Err("declared-kind-mismatch:ENUMERATED".into()),
        };
        let n = match t {
            Type::Enumerated { root, ext } => root.len() + ext.as_ref().map(|e| e.len()).unwrap_or(0),
            _ => 0,
        };
        if values.len() != n {
            return Err("enum-shape:number-of-values".into());
        }
        for (k, (_, num)) in values.iter().enumerate() {
            if *num != k as i64 {
                return Err("enum-numbering-not-positional".into());
            }
        }
        let got = match entry {
            None => 0,
            Some(Wire::Varint(v)) => *v as i64,
            Some(other) => return Err(format!("wire-type:{}-for-enum", other.wire_type())),
        };
        if got != idx as i64 {
            return Err("value:ENUMERATED".into());
        }
        Ok(())
    }
}

pub fn default_like(v: &Val) -> bool {
    is_default(v)
}

#[cfg(test)]
mod tests {
    use super::*;

    #[test]
    fn parses_and_validates() {
        let text = "syntax = 'proto3';\npackage a.b;\n\nimport 'x.proto';\n\nmessage M {\n    uint32 a = 1;\n    repeated string b = 2;\n    oneof value {\n      bool c = 1;\n    }\n}\nenum E {\n    E_A = 0;\n    E_B = 1;\n}\n";
        let f = parse_proto("m.proto", text).unwrap();
        assert_eq!(f.defs.len(), 2);
        let v = validate(&[f]);
        let rules: Vec<&str> = v.iter().map(|(r, _)| r.as_str()).collect();
        assert!(rules.contains(&"import-of-unknown-file"));
        assert!(rules.contains(&"field-number-duplicate"));
        let bad = parse_proto("n.proto", "syntax = 'proto3';\nmessage L {\n repeated repeated uint64 l = 3;\n oneof value {\n repeated bool c = 4;\n }\n}\nenum F { F_X = 1; }").unwrap();
        let v = validate(&[bad]);
        let rules: Vec<&str> = v.iter().map(|(r, _)| r.as_str()).collect();
        assert!(rules.contains(&"repeated-repeated") && rules.contains(&"repeated-inside-oneof") && rules.contains(&"enum-first-value-not-zero"));
    }

    #[test]
    fn wire() {
        // field 1 varint 150, field 2 "hi"
        let e = split_message(&[0x08, 0x96, 0x01, 0x12, 0x02, b'h', b'i']).unwrap();
        assert_eq!(e, vec![(1, Wire::Varint(150)), (2, Wire::Len(b"hi".to_vec()))]);
        assert_eq!(scalar_int("sint32", &Wire::Varint(1)).unwrap(), -1);
        assert_eq!(scalar_int("sint64", &Wire::Varint(4294967294)).unwrap(), 2147483647);
        assert_eq!(scalar_int("uint32", &Wire::Varint(4295032831)).unwrap(), 65535);
        assert!(split_message(&[0x0a, 0x05, 1]).is_err());
    }
}
