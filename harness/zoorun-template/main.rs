//! zoorun: runs the zoo monitors over the generated types (template; the dispatch arms are filled in by zoogen).
use monitors::inject::SetOrder;
use monitors::report::{Args, Report};
use monitors::spy::SpyBits;
use monitors::zoo::{Mode, TypeEntry, ZooCtx};
use asn1rs::rw::{UperReader, UperWriter};
use serde_json::Value;
use std::collections::BTreeSet;
use vgen::rng::Rng;
use vgen::schema::Universe;

fn dispatch(ctx: &mut ZooCtx, e: &TypeEntry) -> bool {
    match e.shard {
/*DISPATCH*/
        _ => false,
    }
}

fn families_for(prop: &str) -> &'static [&'static str] {
    match prop {
        "C01" => &["rand", "large", "edges", "sets", "hostile", "protoedge", "compat"],
        "C02" => &["rand", "large", "edges", "sets", "hostile", "shapes", "compat"],
        "C03" => &["shapes"],
        "C04" => &["rand", "hostile", "corpus", "edges", "compat", "protoedge"],
        "C05" => &["compat-pair"],
        "C06" => &["edges", "rand", "sets"],
        "C16" => &["sets"],
        "C17" | "C18" => &["rand", "protoedge", "edges", "sets"],
        "C19" => &["rand", "hostile", "corpus", "compat"],
        _ => &[],
    }
}

fn main() {
    let args = Args::parse();
    let prop = args.str("property", "C01");
    let tier = args.str("tier", "quick");
    let seed = args.u64("seed", 1);
    let shard = args.u64("shard", 0);
    let nshards = args.u64("nshards", 1).max(1);
    let out = args.str("out", "/dev/stdout");
    let variant = args.str("variant", "checked");
    let schema_path = args.str("schema", "schema.json");
    let known: Vec<String> = args.get("known-classes").map(|s| s.split(',').filter(|x| !x.is_empty()).map(|x| x.to_string()).collect()).unwrap_or_default();
    monitors::journal::install();

    let schema: Value = serde_json::from_slice(&std::fs::read(&schema_path).expect("schema.json")).expect("schema json");
    let raw: Vec<Universe> = serde_json::from_value(schema["universes"].clone()).expect("universes");
    let universes: Vec<Universe> = raw.iter().map(|u| vgen::resolve::resolve_universe(u).expect("resolvable universe")).collect();
    let universes: &'static [Universe] = Box::leak(universes.into_boxed_slice());
    let types: Vec<TypeEntry> = schema["types"].as_array().map(|a| a.iter().map(TypeEntry::from_json).collect()).unwrap_or_default();

    let mut known_dev = vgen::per::Deviations::default();
    let mut known_classes = BTreeSet::new();
    for k in &known {
        known_dev.set(k, true);
        known_classes.insert(k.clone());
    }
    let set_order = if args.flag("set-additions-sorted") { SetOrder::AllSorted } else { SetOrder::RootSorted };
    let values_per_type = args.u64("values", if tier == "quick" { 40 } else { 400 });
    let mut ctx = ZooCtx {
        prop: prop.clone(),
        tier: tier.clone(),
        seed,
        rep: Report::new(&prop, &tier, seed, shard, &variant),
        universes,
        known_dev,
        known_classes,
        set_order,
        values_per_type,
        mode: Mode::Single,
        hist_writer: UperWriter::default(),
        hist_boundaries: Vec::new(),
        hist_reader: None,
        hist_log: Vec::new(),
        hist_cursor: 0,
        table: Vec::new(),
        protos: Default::default(),
    };
    if prop == "C18" {
        for p in schema["protos"].as_array().cloned().unwrap_or_default() {
            let ui = p["universe"].as_u64().unwrap_or(0) as usize;
            let nm = universes.get(ui).map(|u| u.modules.len()).unwrap_or(0);
            let set = monitors::zoo::ProtoSet::from_json(&p, nm);
            if ui as u64 % nshards == shard {
                let asn1 = raw.get(ui).map(|u| u.modules.iter().map(vgen::print::print_module).collect::<Vec<_>>().join("\n")).unwrap_or_default();
                monitors::zoo::c18_validate(&mut ctx.rep, ui, &set, &asn1);
            }
            ctx.protos.insert(ui, std::rc::Rc::new(set));
        }
    }
    ctx.rep.rule = monitors::zoo::rule_text(&prop);
    // C03 below the generated code: hand-written constraints with mandatory (not Option-wrapped) additions
    if prop == "C03" && shard == 0 {
        monitors::scopeapi::c03_scope_api(&mut ctx.rep);
    }
    let fams = families_for(&prop);
    let mine: Vec<&TypeEntry> = types.iter().filter(|e| fams.contains(&e.family.as_str())).collect();
    // single-type workloads, sharded by type id
    for e in mine.iter() {
        if e.id as u64 % nshards != shard {
            continue;
        }
        if !dispatch(&mut ctx, e) {
            ctx.rep.inconclusive(&format!("type {} not in dispatch table", e.id));
        }
    }
    // histories (C01): several values written back-to-back into one writer
    if prop == "C01" {
        let pool: Vec<&TypeEntry> = mine.iter().copied().filter(|e| e.family != "large" && e.universe.is_some()).collect();
        let nhist = if tier == "quick" { 1500 } else { 20_000 } / nshards;
        if !pool.is_empty() {
            for h in 0..nhist {
                let mut rng = Rng::derive(seed, &["C01", "history"], shard * 10_000_000 + h);
                let k = *rng.pick(&[2usize, 3, 5, 8]);
                let picks: Vec<(&TypeEntry, u64)> = (0..k).map(|_| (*rng.pick(&pool), rng.below(1000))).collect();
                ctx.hist_writer = UperWriter::default();
                ctx.hist_boundaries.clear();
                ctx.hist_log.clear();
                ctx.hist_reader = None;
                ctx.rep.eval();
                let mut ok = true;
                for (e, n) in &picks {
                    ctx.mode = Mode::HistWrite(*n);
                    dispatch(&mut ctx, e);
                    if ctx.hist_boundaries.last().map(|b| *b >= usize::MAX - 1).unwrap_or(true) {
                        ok = false;
                        break;
                    }
                }
                if !ok {
                    ctx.rep.hist("outcomes", "history-cut-short");
                    continue;
                }
                let bytes: &'static [u8] = Box::leak(ctx.hist_writer.byte_content().to_vec().into_boxed_slice());
                let total = ctx.hist_writer.bit_len();
                ctx.hist_reader = Some(UperReader::from(SpyBits::new(bytes, total)));
                for (i, (e, n)) in picks.iter().enumerate() {
                    ctx.mode = Mode::HistRead(*n);
                    ctx.hist_cursor = i;
                    let before = ctx.rep.violations.values().map(|f| f.count).sum::<u64>();
                    dispatch(&mut ctx, e);
                    if ctx.rep.violations.values().map(|f| f.count).sum::<u64>() > before {
                        break;
                    }
                }
                if let Some(r) = ctx.hist_reader.take() {
                    if r.bits_remaining() != 0 && ctx.hist_cursor + 1 == picks.len() {
                        // only meaningful when every element was read without a reported difference
                    }
                    let spy = r.into_bits();
                    if spy.overreads > 0 {
                        ctx.rep.violation("c01:history:read-beyond-declared-length", serde_json::json!({"history": ctx.hist_log}));
                    }
                }
                ctx.rep.hist("history-lengths", &format!("{}", k));
                ctx.rep.distinct(vgen::rng::hash_bytes(bytes) ^ 0x4849_5354);
                // the leaked buffer is small; histories are bounded per run
            }
        }
        ctx.mode = Mode::Single;
    }
    monitors::zoo::finish(&mut ctx);
    if prop == "C19" {
        std::fs::write(format!("{}.table", out), ctx.table.join("\n")).expect("table");
    }
    ctx.rep.write(&out);
}
