//! C20: DER primitives round trip (identifier, length, BOOLEAN, INTEGER, ENUMERATED) + R-der octets.
use asn1rs::descriptor::{common, enumerated, numbers, boolean, Readable, ReadableType, Reader, WritableType};
use asn1rs::model::asn::Tag;
use asn1rs::protocol::basic::{BasicRead, BasicWrite, DER};
use monitors::journal::guarded;
use monitors::report::Report;
use serde_json::json;
use vgen::bits::hex;
use vgen::rng::{hash_str, Rng};

const SENTINEL: [u8; 3] = [0xA5, 0x5A, 0xC3];

/// X.690 8.1.3: expected length octets
fn r_der_length(n: u64) -> Vec<u8> {
    if n <= 127 {
        vec![n as u8]
    } else {
        let mut o = n.to_be_bytes().to_vec();
        while o[0] == 0 {
            o.remove(0);
        }
        let mut v = vec![0x80 | o.len() as u8];
        v.extend(o);
        v
    }
}

fn length_case(rep: &mut Report, n: u64) {
    rep.eval();
    let mut buf: Vec<u8> = Vec::new();
    let wit = json!({"op": "length", "n": n});
    match guarded(|| buf.write_length(n)) {
        Err(p) => return rep.violation(&format!("c20:write_length:{}", p.signature()), wit),
        Ok(Err(_)) => return rep.violation("c20:write_length:err", wit),
        Ok(Ok(())) => {}
    }
    if buf != r_der_length(n) {
        rep.violation("c20:write_length:octets-differ-from-x690", json!({"n": n, "got": hex(&buf), "want": hex(&r_der_length(n))}));
    }
    let written = buf.len();
    buf.extend_from_slice(&SENTINEL);
    let mut rd = &buf[..];
    match guarded(|| rd.read_length()) {
        Err(p) => rep.violation(&format!("c20:read_length:{}", p.signature()), wit),
        Ok(Err(_)) => rep.violation("c20:read_length:err", wit),
        Ok(Ok(v)) => {
            if v != n {
                rep.violation("c20:length:value-differs", json!({"n": n, "read": v}));
            } else if rd != SENTINEL {
                rep.violation("c20:length:bytes-consumed", json!({"n": n, "written": written, "left": rd.len()}));
            }
        }
    }
    rep.distinct(hash_str("len") ^ n);
    rep.hist("classes", &format!("length:{}octets", r_der_length(n).len()));
}

fn identifier_case(rep: &mut Report, tag: Tag) {
    rep.eval();
    let mut buf: Vec<u8> = Vec::new();
    let wit = json!({"op": "identifier", "tag": format!("{:?}", tag)});
    match guarded(|| buf.write_identifier(tag)) {
        Err(p) => return rep.violation(&format!("c20:write_identifier:{}", p.signature()), wit),
        Ok(Err(_)) => return rep.violation("c20:write_identifier:err", wit),
        Ok(Ok(())) => {}
    }
    let class_bits = match tag {
        Tag::Universal(_) => 0x00,
        Tag::Application(_) => 0x40,
        Tag::ContextSpecific(_) => 0x80,
        Tag::Private(_) => 0xC0,
    };
    if buf != [class_bits | tag.value() as u8] {
        rep.violation("c20:write_identifier:octets-differ-from-x690", json!({"tag": format!("{:?}", tag), "got": hex(&buf)}));
    }
    buf.extend_from_slice(&SENTINEL);
    let mut rd = &buf[..];
    match guarded(|| rd.read_identifier()) {
        Err(p) => rep.violation(&format!("c20:read_identifier:{}", p.signature()), wit),
        Ok(Err(_)) => rep.violation("c20:read_identifier:err", wit),
        Ok(Ok(t)) => {
            if t != tag {
                rep.violation("c20:identifier:value-differs", json!({"tag": format!("{:?}", tag), "read": format!("{:?}", t)}));
            } else if rd != SENTINEL {
                rep.violation("c20:identifier:bytes-consumed", wit);
            }
        }
    }
    rep.distinct(hash_str(&format!("{:?}", tag)));
    rep.hist("classes", "identifier");
}

fn int_i64_case(rep: &mut Report, v: i64) {
    rep.eval();
    let mut buf: Vec<u8> = Vec::new();
    let wit = json!({"op": "integer_i64", "v": v});
    match guarded(|| buf.write_integer_i64(v)) {
        Err(p) => return rep.violation(&format!("c20:write_integer_i64:{}", p.signature()), wit),
        Ok(Err(_)) => return rep.violation("c20:write_integer_i64:err", wit),
        Ok(Ok(())) => {}
    }
    let n = buf.len();
    if n == 0 || n > 8 {
        rep.violation("c20:write_integer_i64:octet-count", json!({"v": v, "octets": n}));
    }
    buf.extend_from_slice(&SENTINEL);
    let mut rd = &buf[..];
    match guarded(|| rd.read_integer_i64(n as u32)) {
        Err(p) => rep.violation(&format!("c20:read_integer_i64:{}", p.signature()), wit),
        Ok(Err(_)) => rep.violation("c20:read_integer_i64:err", wit),
        Ok(Ok(r)) => {
            if r != v {
                rep.violation("c20:integer_i64:value-differs", json!({"v": v, "read": r, "octets": hex(&buf[..n])}));
            } else if rd != SENTINEL {
                rep.violation("c20:integer_i64:bytes-consumed", wit);
            }
        }
    }
    rep.distinct(hash_str("i64") ^ v as u64);
    rep.hist("classes", &format!("integer_i64:{}octets{}", n, if v < 0 { ":neg" } else { "" }));
}

fn int_u64_case(rep: &mut Report, v: u64) {
    rep.eval();
    let mut buf: Vec<u8> = Vec::new();
    let wit = json!({"op": "integer_u64", "v": v});
    match guarded(|| buf.write_integer_u64(v)) {
        Err(p) => return rep.violation(&format!("c20:write_integer_u64:{}", p.signature()), wit),
        Ok(Err(_)) => return rep.violation("c20:write_integer_u64:err", wit),
        Ok(Ok(())) => {}
    }
    let n = buf.len();
    buf.extend_from_slice(&SENTINEL);
    let mut rd = &buf[..];
    match guarded(|| rd.read_integer_u64(n as u32)) {
        Err(p) => rep.violation(&format!("c20:read_integer_u64:{}", p.signature()), wit),
        Ok(Err(_)) => rep.violation("c20:read_integer_u64:err", wit),
        Ok(Ok(r)) => {
            if r != v {
                rep.violation("c20:integer_u64:value-differs", json!({"v": v, "read": r}));
            } else if rd != SENTINEL {
                rep.violation("c20:integer_u64:bytes-consumed", wit);
            }
        }
    }
    rep.distinct(hash_str("u64") ^ v);
    rep.hist("classes", &format!("integer_u64:{}octets", n));
}

fn boolean_read_case(rep: &mut Report, octet: u8) {
    rep.eval();
    let buf = [octet, SENTINEL[0], SENTINEL[1], SENTINEL[2]];
    let mut rd = &buf[..];
    match guarded(|| rd.read_boolean()) {
        Err(p) => rep.violation(&format!("c20:read_boolean:{}", p.signature()), json!({"octet": octet})),
        Ok(Err(_)) => rep.violation("c20:read_boolean:err", json!({"octet": octet})),
        Ok(Ok(b)) => {
            if b != (octet != 0) {
                rep.violation("c20:boolean:non-zero-octet-must-be-true", json!({"octet": octet, "read": b}));
            } else if rd != SENTINEL {
                rep.violation("c20:boolean:bytes-consumed", json!({"octet": octet}));
            }
        }
    }
    rep.distinct(hash_str("bool") ^ octet as u64);
    rep.hist("classes", "boolean-read");
}

// hand-written descriptor types for the BasicWriter/BasicReader level
struct I64C;
impl common::Constraint for I64C {
    const TAG: Tag = Tag::DEFAULT_INTEGER;
}
impl numbers::Constraint<i64> for I64C {}
struct U32C;
impl common::Constraint for U32C {
    const TAG: Tag = Tag::ContextSpecific(7);
}
impl numbers::Constraint<u32> for U32C {}
struct I8C;
impl common::Constraint for I8C {
    const TAG: Tag = Tag::Application(3);
}
impl numbers::Constraint<i8> for I8C {}
struct U64C;
impl common::Constraint for U64C {
    const TAG: Tag = Tag::Private(30);
}
impl numbers::Constraint<u64> for U64C {}

#[derive(Debug, PartialEq, Clone, Copy)]
struct BigEnum(u64);
impl common::Constraint for BigEnum {
    const TAG: Tag = Tag::DEFAULT_ENUMERATED;
}
impl enumerated::Constraint for BigEnum {
    const NAME: &'static str = "BigEnum";
    const VARIANT_COUNT: u64 = u64::MAX;
    const STD_VARIANT_COUNT: u64 = u64::MAX;
    fn to_choice_index(&self) -> u64 {
        self.0
    }
    fn from_choice_index(index: u64) -> Option<Self> {
        Some(BigEnum(index))
    }
}
impl Readable for BigEnum {
    fn read<R: Reader>(reader: &mut R) -> Result<Self, R::Error> {
        enumerated::Enumerated::<BigEnum>::read_value(reader)
    }
}

fn writer_number_case<T, C>(rep: &mut Report, name: &str, v: T)
where
    T: numbers::Number + PartialEq + std::fmt::Debug,
    C: numbers::Constraint<T>,
{
    rep.eval();
    let wit = json!({"op": format!("BasicWriter::write_number<{}>", name), "v": format!("{:?}", v)});
    let mut w = DER::writer(Vec::<u8>::new());
    match guarded(|| numbers::Integer::<T, C>::write_value(&mut w, &v)) {
        Err(p) => return rep.violation(&format!("c20:writer:number:{}:{}", name, p.signature()), wit),
        Ok(Err(_)) => return rep.violation(&format!("c20:writer:number:{}:err", name), wit),
        Ok(Ok(())) => {}
    }
    let mut buf = w.into_inner();
    let n = buf.len();
    buf.extend_from_slice(&SENTINEL);
    let mut r = DER::reader(&buf[..]);
    match guarded(|| numbers::Integer::<T, C>::read_value(&mut r)) {
        Err(p) => rep.violation(&format!("c20:reader:number:{}:{}", name, p.signature()), wit),
        Ok(Err(_)) => rep.violation(&format!("c20:reader:number:{}:err", name), json!({"case": wit, "octets": hex(&buf[..n])})),
        Ok(Ok(x)) => {
            if x != v {
                rep.violation(&format!("c20:number:{}:value-differs", name), json!({"case": wit, "read": format!("{:?}", x), "octets": hex(&buf[..n])}));
            } else if r.into_inner() != SENTINEL {
                rep.violation(&format!("c20:number:{}:bytes-consumed", name), wit);
            }
        }
    }
    rep.distinct(hash_str(&format!("{}{:?}", name, v)));
    rep.hist("classes", &format!("writer-number:{}", name));
}

fn writer_bool_case(rep: &mut Report, v: bool) {
    rep.eval();
    let mut w = DER::writer(Vec::<u8>::new());
    match guarded(|| boolean::Boolean::<boolean::NoConstraint>::write_value(&mut w, &v)) {
        Ok(Ok(())) => {}
        Ok(Err(_)) => return rep.violation("c20:writer:boolean:err", json!({"v": v})),
        Err(p) => return rep.violation(&format!("c20:writer:boolean:{}", p.signature()), json!({"v": v})),
    }
    let mut buf = w.into_inner();
    if buf != [0x01, 0x01, if v { buf[2].max(1) } else { 0 }] || buf.len() != 3 {
        rep.violation("c20:writer:boolean:octets-differ-from-x690", json!({"v": v, "got": hex(&buf)}));
    }
    buf.extend_from_slice(&SENTINEL);
    let mut r = DER::reader(&buf[..]);
    match guarded(|| boolean::Boolean::<boolean::NoConstraint>::read_value(&mut r)) {
        Ok(Ok(x)) => {
            if x != v || r.into_inner() != SENTINEL {
                rep.violation("c20:boolean:round-trip", json!({"v": v}));
            }
        }
        Ok(Err(_)) => rep.violation("c20:reader:boolean:err", json!({"v": v})),
        Err(p) => rep.violation(&format!("c20:reader:boolean:{}", p.signature()), json!({"v": v})),
    }
    // reader level: any non-zero content octet is true
    for octet in 0..=255u8 {
        let buf = [0x01, 0x01, octet, SENTINEL[0], SENTINEL[1], SENTINEL[2]];
        let mut r = DER::reader(&buf[..]);
        match guarded(|| boolean::Boolean::<boolean::NoConstraint>::read_value(&mut r)) {
            Ok(Ok(x)) => {
                if x != (octet != 0) || r.into_inner() != SENTINEL {
                    rep.violation("c20:reader:boolean:non-zero-octet-must-be-true", json!({"octet": octet}));
                }
            }
            _ => rep.violation("c20:reader:boolean:fails", json!({"octet": octet})),
        }
    }
    rep.hist("classes", "writer-boolean");
}

/// ENUMERATED types of a given size (const generic): every index below N is valid, N and above is not
#[derive(Debug, PartialEq, Clone, Copy)]
struct Sized<const N: u64>(u64);
impl<const N: u64> common::Constraint for Sized<N> {
    const TAG: Tag = Tag::DEFAULT_ENUMERATED;
}
impl<const N: u64> enumerated::Constraint for Sized<N> {
    const NAME: &'static str = "Sized";
    const VARIANT_COUNT: u64 = N;
    const STD_VARIANT_COUNT: u64 = N;
    fn to_choice_index(&self) -> u64 {
        self.0
    }
    fn from_choice_index(index: u64) -> Option<Self> {
        if index < N {
            Some(Sized(index))
        } else {
            None
        }
    }
}

fn sized_enum_case<const N: u64>(rep: &mut Report, idx: u64) {
    rep.eval();
    let wit = json!({"op": "BasicWriter/BasicReader enumerated", "variants": N, "idx": idx});
    let mut w = DER::writer(Vec::<u8>::new());
    match guarded(|| enumerated::Enumerated::<Sized<N>>::write_value(&mut w, &Sized::<N>(idx))) {
        Ok(Ok(())) => {}
        Ok(Err(_)) => return rep.violation("c20:writer:enumerated:sized:err", wit),
        Err(p) => return rep.violation(&format!("c20:writer:enumerated:sized:{}", p.signature()), wit),
    }
    let mut buf = w.into_inner();
    let n = buf.len();
    buf.extend_from_slice(&SENTINEL);
    let mut r = DER::reader(&buf[..]);
    match guarded(|| enumerated::Enumerated::<Sized<N>>::read_value(&mut r)) {
        Ok(Ok(x)) => {
            if x.0 != idx {
                rep.violation("c20:enumerated:sized:value-differs", json!({"case": wit, "read": x.0, "octets": hex(&buf[..n])}));
            } else if r.into_inner() != SENTINEL {
                rep.violation("c20:enumerated:sized:bytes-consumed", wit);
            }
        }
        Ok(Err(_)) => rep.violation("c20:reader:enumerated:sized:valid-index-rejected", json!({"case": wit, "octets": hex(&buf[..n])})),
        Err(p) => rep.violation(&format!("c20:reader:enumerated:sized:{}", p.signature()), wit),
    }
    rep.distinct(hash_str("sized-enum") ^ idx ^ N << 32);
    rep.hist("classes", &format!("sized-enumerated:{}-variants", N));
}

fn sized_enum_family<const N: u64>(rep: &mut Report) {
    let mut idx: Vec<u64> = vec![0, 1, 2, 127, 128, 129, 255, 256, 257, 32767, 32768, 65535, 65536, 8388607, 8388608, N / 2, N - 1, N.saturating_sub(2)];
    idx.retain(|i| *i < N);
    idx.sort();
    idx.dedup();
    for i in idx {
        sized_enum_case::<N>(rep, i);
    }
}

/// `std::io::Read` implementations that hand out the bytes in pieces: the primitives must use read_exact semantics
struct Piecewise<'a> {
    data: &'a [u8],
    piece: usize,
}
impl std::io::Read for Piecewise<'_> {
    fn read(&mut self, buf: &mut [u8]) -> std::io::Result<usize> {
        let n = buf.len().min(self.piece).min(self.data.len());
        buf[..n].copy_from_slice(&self.data[..n]);
        self.data = &self.data[n..];
        Ok(n)
    }
}

fn piecewise_case(rep: &mut Report, v: i64, u: u64, len: u64) {
    use std::io::Read;
    // the writer's bytes for: INTEGER v, a raw length, INTEGER (u64) u
    let mut w = DER::writer(Vec::<u8>::new());
    if !matches!(guarded(|| numbers::Integer::<i64, I64C>::write_value(&mut w, &v)), Ok(Ok(()))) {
        return;
    }
    let mut buf = w.into_inner();
    let _ = buf.write_length(len);
    let mut w = DER::writer(buf);
    if !matches!(guarded(|| numbers::Integer::<u64, U64C>::write_value(&mut w, &u)), Ok(Ok(()))) {
        return;
    }
    let buf = w.into_inner();
    let expect = |rep: &mut Report, how: &str, got: Result<(i64, u64, u64), String>| {
        rep.eval();
        match got {
            Ok(x) if x == (v, len, u) => rep.hist("classes", "piecewise-reader"),
            Ok(x) => rep.violation(&format!("c20:piecewise-reader:{}:values-differ", how), json!({"v": v, "len": len, "u": u, "read": format!("{:?}", x), "octets": hex(&buf)})),
            Err(e) => rep.violation(&format!("c20:piecewise-reader:{}:{}", how, e), json!({"v": v, "len": len, "u": u, "octets": hex(&buf)})),
        }
    };
    let read_all = |r: &mut dyn Read| -> Result<(i64, u64, u64), String> {
        let mut r = r;
        let a = {
            let mut rd = DER::reader(&mut r);
            numbers::Integer::<i64, I64C>::read_value(&mut rd).map_err(|_| "err:first-integer".to_string())?
        };
        let l = r.read_length().map_err(|_| "err:length".to_string())?;
        let b = {
            let mut rd = DER::reader(&mut r);
            numbers::Integer::<u64, U64C>::read_value(&mut rd).map_err(|_| "err:second-integer".to_string())?
        };
        Ok((a, l, b))
    };
    for piece in [1usize, 2, 3, 5] {
        let got = guarded(|| read_all(&mut Piecewise { data: &buf, piece })).unwrap_or_else(|p| Err(p.signature()));
        expect(rep, "pieces", got);
    }
    // two chained buffers with the seam at every position
    for seam in 1..buf.len() {
        let got = guarded(|| read_all(&mut (&buf[..seam]).chain(&buf[seam..]))).unwrap_or_else(|p| Err(p.signature()));
        expect(rep, "chain", got);
    }
    rep.distinct(hash_str("piecewise") ^ v as u64 ^ u.rotate_left(17) ^ len << 40);
}

fn writer_enum_case(rep: &mut Report, idx: u64) {
    rep.eval();
    let wit = json!({"op": "BasicWriter::write_enumerated", "idx": idx});
    let mut w = DER::writer(Vec::<u8>::new());
    match guarded(|| enumerated::Enumerated::<BigEnum>::write_value(&mut w, &BigEnum(idx))) {
        Ok(Ok(())) => {}
        Ok(Err(_)) => return rep.violation("c20:writer:enumerated:err", wit),
        Err(p) => return rep.violation(&format!("c20:writer:enumerated:{}", p.signature()), wit),
    }
    let mut buf = w.into_inner();
    let n = buf.len();
    buf.extend_from_slice(&SENTINEL);
    let mut r = DER::reader(&buf[..]);
    match guarded(|| r.read::<BigEnum>()) {
        Ok(Ok(x)) => {
            if x.0 != idx {
                rep.violation("c20:enumerated:value-differs", json!({"idx": idx, "read": x.0, "octets": hex(&buf[..n])}));
            } else if r.into_inner() != SENTINEL {
                rep.violation("c20:enumerated:bytes-consumed", wit);
            }
        }
        Ok(Err(_)) => rep.violation("c20:reader:enumerated:err", wit),
        Err(p) => rep.violation(&format!("c20:reader:enumerated:{}", p.signature()), wit),
    }
    rep.distinct(hash_str("enum") ^ idx);
    rep.hist("classes", "writer-enumerated");
}

pub fn run(rep: &mut Report, tier: &str, seed: u64, shard: u64, nshards: u64, miri: bool) {
    rep.rule = "lengths: every value within +-300 of 2^(7k) and 2^(8k) (k<=9, clipped to u64) + random; identifiers: 4 classes x numbers 0..=30; booleans: all 256 content octets on the read side; integers: boundary families 2^k+-1, i64/u64 extremes, random, through write_integer_* + read_integer_* and through BasicWriter/BasicReader {number, boolean, enumerated}; ENUMERATED types of 20 sizes (2 .. 2^32+1 variants, on both sides of every octet boundary of the last index) at their boundary indices; readers that deliver the written bytes in pieces (1/2/3/5 octets at a time, two chained buffers with the seam at every position); every value followed by sentinel bytes. distinct = distinct (operation, value)".into();
    let mine = |k: u64| k % nshards == shard;
    let mut rng = Rng::derive(seed, &["C20"], shard);
    let span: i128 = if miri { 3 } else { 300 };
    if mine(0) {
        for k in 0..=9u32 {
            for base in [1u128 << (7 * k), 1u128 << (8 * k).min(64)] {
                for d in -span..=span {
                    let v = base as i128 + d;
                    if v >= 0 && v <= u64::MAX as i128 {
                        length_case(rep, v as u64);
                    }
                }
            }
        }
        length_case(rep, u64::MAX);
        for n in 0..4u64 {
            for num in 0..=30usize {
                identifier_case(
                    rep,
                    match n {
                        0 => Tag::Universal(num),
                        1 => Tag::Application(num),
                        2 => Tag::ContextSpecific(num),
                        _ => Tag::Private(num),
                    },
                );
            }
        }
        for o in 0..=255u8 {
            boolean_read_case(rep, o);
        }
        writer_bool_case(rep, true);
        writer_bool_case(rep, false);
    }
    if mine(1) {
        let pool: Vec<i128> = {
            let mut v = vec![0i128, 1, -1, 127, 128, 129, 255, 256, -127, -128, -129, -255, -256, -257, 32767, 32768, -32768, -32769];
            for k in 0..=64u32 {
                for d in [-2i128, -1, 0, 1, 2] {
                    v.push((1i128 << k) + d);
                    v.push(-(1i128 << k) + d);
                }
            }
            v
        };
        for &p in &pool {
            if p >= i64::MIN as i128 && p <= i64::MAX as i128 {
                int_i64_case(rep, p as i64);
                writer_number_case::<i64, I64C>(rep, "i64", p as i64);
            }
            if p >= 0 && p <= u64::MAX as i128 {
                int_u64_case(rep, p as u64);
                writer_enum_case(rep, p as u64);
                writer_number_case::<u64, U64C>(rep, "u64", p as u64);
            }
            if p >= 0 && p <= u32::MAX as i128 {
                writer_number_case::<u32, U32C>(rep, "u32", p as u32);
            }
            if p >= i8::MIN as i128 && p <= i8::MAX as i128 {
                writer_number_case::<i8, I8C>(rep, "i8", p as i8);
            }
        }
        for v in -130i64..=130 {
            writer_number_case::<i8, I8C>(rep, "i8", v.clamp(-128, 127) as i8);
            int_i64_case(rep, v);
        }
    }
    if mine(2) {
        // ENUMERATED types of many sizes: 1..3 content octets, sizes whose last index has a bit length that is / is not a
        // multiple of 8
        sized_enum_family::<2>(rep);
        sized_enum_family::<3>(rep);
        sized_enum_family::<127>(rep);
        sized_enum_family::<128>(rep);
        sized_enum_family::<129>(rep);
        sized_enum_family::<255>(rep);
        sized_enum_family::<256>(rep);
        sized_enum_family::<257>(rep);
        sized_enum_family::<300>(rep);
        sized_enum_family::<1000>(rep);
        sized_enum_family::<32768>(rep);
        sized_enum_family::<32769>(rep);
        sized_enum_family::<40000>(rep);
        sized_enum_family::<65536>(rep);
        sized_enum_family::<65537>(rep);
        sized_enum_family::<70000>(rep);
        sized_enum_family::<8388608>(rep);
        sized_enum_family::<8388609>(rep);
        sized_enum_family::<16777217>(rep);
        sized_enum_family::<4294967297>(rep);
    }
    if mine(3) && !miri {
        // readers that deliver the bytes in pieces
        for (v, u, len) in [(0i64, 0u64, 0u64), (1, 1, 1), (-1, 255, 127), (-129, 256, 128), (32767, 65535, 258), (-32769, 65536, 65535), (i64::MAX, u64::MAX, u64::MAX), (i64::MIN, 1 << 63, 1 << 32), (0x0102030405060708, 0x0807060504030201, 0x010203)] {
            piecewise_case(rep, v, u, len);
        }
        for _ in 0..40 {
            let (v, u, len) = (rng.next_u64() as i64 >> rng.below(64), rng.next_u64() >> rng.below(64), rng.next_u64() >> rng.below(64));
            piecewise_case(rep, v, u, len);
        }
    }
    let nrand = if miri { 200 } else if tier == "quick" { 200_000 / nshards } else { 1_000_000 / nshards };
    for _ in 0..nrand {
        let shift = rng.below(64);
        let v = rng.next_u64() >> shift;
        match rng.below(6) {
            0 => length_case(rep, v),
            1 => int_i64_case(rep, v as i64),
            2 => int_i64_case(rep, (v as i64).wrapping_neg()),
            3 => int_u64_case(rep, v),
            4 => writer_number_case::<i64, I64C>(rep, "i64", (v as i64).wrapping_neg()),
            _ => writer_enum_case(rep, v),
        }
    }
    rep.exhaustive = true;
    for cell in ["length", "identifier", "boolean-read", "integer_i64", "integer_u64", "writer-number", "writer-enumerated", "sized-enumerated", "piecewise-reader"] {
        let n: u64 = rep
            .hist
            .get("classes")
            .map(|c| c.iter().filter(|(k, _)| k.starts_with(cell)).map(|(_, v)| *v).sum())
            .unwrap_or(0);
        if nshards == 1 || n > 0 {
            rep.floor.insert(format!("op:{}", cell), n);
        }
    }
}
