//! C11: bit-level buffer operations equal a naive bit-vector model (R-bits).
use asn1rs::protocol::per::unaligned::buffer::BitBuffer;
use asn1rs::protocol::per::unaligned::{BitRead, BitWrite};
use asn1rs::rw::{Bits, ScopedBitRead};
use monitors::journal::guarded;
use monitors::report::Report;
use serde_json::json;
use vgen::bits::*;
use vgen::rng::{hash_str, Rng};

fn fill(n: usize, pat: u8) -> Vec<u8> {
    vec![pat; n]
}

fn class3(src_off: usize, dst_pos: usize, len: usize) -> String {
    format!("s{}d{}l{}{}", src_off % 8, dst_pos % 8, len % 8, if len > 16 { "L" } else { "S" })
}

/// one tuple write through the general entry point, checked against the model
fn tuple_write_case(
    rep: &mut Report,
    src: &[u8],
    dst0: &[u8],
    src_off: usize,
    dst_pos: usize,
    len: usize,
    entry: &str,
) {
    rep.eval();
    let srcb = bytes_to_bools(src, src.len() * 8);
    let mut model = bytes_to_bools(dst0, dst0.len() * 8);
    let ok_expected = model_copy(&srcb, src_off, &mut model.clone(), dst_pos, len);
    if ok_expected {
        model_copy(&srcb, src_off, &mut model, dst_pos, len);
    }
    let mut dst = dst0.to_vec();
    let mut pos = dst_pos;
    let r = guarded(|| {
        let mut t = (&mut dst[..], &mut pos);
        match entry {
            "write_bits_with_offset_len" => t.write_bits_with_offset_len(src, src_off, len),
            "write_bits" => t.write_bits(src),
            "write_bits_with_offset" => t.write_bits_with_offset(src, src_off),
            "write_bits_with_len" => t.write_bits_with_len(src, len),
            _ => unreachable!(),
        }
    });
    let cls = class3(src_off, dst_pos, len);
    let wit = || {
        json!({"op": entry, "target": "tuple", "src": hex(src), "dst": hex(dst0), "src_off": src_off, "dst_pos": dst_pos, "len": len})
    };
    match r {
        Err(p) => {
            let adm = if ok_expected { "admissible" } else { "inadmissible" };
            rep.violation(&format!("c11:tuple:{}:{}:{}", entry, adm, p.signature()), wit());
        }
        Ok(Ok(())) => {
            if !ok_expected {
                rep.violation(&format!("c11:tuple:{}:ok-on-out-of-range", entry), wit());
            } else {
                let got = bytes_to_bools(&dst, dst.len() * 8);
                if got != model {
                    let first = got.iter().zip(model.iter()).position(|(a, b)| a != b).unwrap();
                    let wher = if first < dst_pos {
                        "before-range"
                    } else if first >= dst_pos + len {
                        "after-range"
                    } else {
                        "inside-range"
                    };
                    rep.violation(
                        &format!("c11:tuple:{}:dst-differs:{}:{}", entry, wher, if len > 16 { "bulk" } else { "bitwise" }),
                        json!({"case": wit(), "got": hex(&dst), "model": hex(&bools_to_bytes(&model)), "first_diff_bit": first}),
                    );
                }
                if pos != dst_pos + len {
                    rep.violation(&format!("c11:tuple:{}:cursor", entry), wit());
                }
                rep.hist("classes", &cls);
                if len > 0 {
                    rep.distinct(hash_str(&format!("w{}{}{}{}{}{}", entry, src.len(), dst0.len(), src_off, dst_pos, len)) ^ (src.first().copied().unwrap_or(0) as u64));
                }
            }
        }
        Ok(Err(_)) => {
            if ok_expected {
                rep.violation(&format!("c11:tuple:{}:err-on-in-range", entry), wit());
            } else {
                rep.hist("outcomes", "rejected-out-of-range");
                if dst != dst0 || pos != dst_pos {
                    rep.violation(&format!("c11:tuple:{}:failed-op-changed-state", entry), wit());
                }
            }
        }
    }
}

fn tuple_read_case(
    rep: &mut Report,
    src: &[u8],
    dst0: &[u8],
    src_pos: usize,
    dst_off: usize,
    len: usize,
    entry: &str,
) {
    rep.eval();
    let srcb = bytes_to_bools(src, src.len() * 8);
    let mut model = bytes_to_bools(dst0, dst0.len() * 8);
    let ok_expected = model_copy(&srcb, src_pos, &mut model.clone(), dst_off, len);
    if ok_expected {
        model_copy(&srcb, src_pos, &mut model, dst_off, len);
    }
    let mut dst = dst0.to_vec();
    let mut pos = src_pos;
    let r = guarded(|| {
        let mut t = (src, &mut pos);
        match entry {
            "read_bits_with_offset_len" => t.read_bits_with_offset_len(&mut dst, dst_off, len),
            "read_bits" => t.read_bits(&mut dst),
            "read_bits_with_offset" => t.read_bits_with_offset(&mut dst, dst_off),
            "read_bits_with_len" => t.read_bits_with_len(&mut dst, len),
            _ => unreachable!(),
        }
    });
    let wit = || {
        json!({"op": entry, "target": "tuple", "src": hex(src), "dst": hex(dst0), "src_pos": src_pos, "dst_off": dst_off, "len": len})
    };
    match r {
        Err(p) => {
            let adm = if ok_expected { "admissible" } else { "inadmissible" };
            rep.violation(&format!("c11:tuple:{}:{}:{}", entry, adm, p.signature()), wit());
        }
        Ok(Ok(())) => {
            if !ok_expected {
                rep.violation(&format!("c11:tuple:{}:ok-on-out-of-range", entry), wit());
            } else {
                let got = bytes_to_bools(&dst, dst.len() * 8);
                if got != model {
                    let first = got.iter().zip(model.iter()).position(|(a, b)| a != b).unwrap();
                    let wher = if first < dst_off {
                        "before-range"
                    } else if first >= dst_off + len {
                        "after-range"
                    } else {
                        "inside-range"
                    };
                    rep.violation(
                        &format!("c11:tuple:{}:dst-differs:{}:{}", entry, wher, if len > 16 { "bulk" } else { "bitwise" }),
                        json!({"case": wit(), "got": hex(&dst), "model": hex(&bools_to_bytes(&model)), "first_diff_bit": first}),
                    );
                }
                if pos != src_pos + len {
                    rep.violation(&format!("c11:tuple:{}:cursor", entry), wit());
                }
                rep.hist("classes", &class3(src_pos, dst_off, len));
                if len > 0 {
                    rep.distinct(hash_str(&format!("r{}{}{}{}{}{}", entry, src.len(), dst0.len(), src_pos, dst_off, len)) ^ (src.first().copied().unwrap_or(0) as u64));
                }
            }
        }
        Ok(Err(_)) => {
            if ok_expected {
                rep.violation(&format!("c11:tuple:{}:err-on-in-range", entry), wit());
            } else {
                rep.hist("outcomes", "rejected-out-of-range");
                if dst != dst0 || pos != src_pos {
                    rep.violation(&format!("c11:tuple:{}:failed-op-changed-state", entry), wit());
                }
            }
        }
    }
}

fn tuple_bit_cases(rep: &mut Report, buf: &[u8]) {
    // write_bit / read_bit at every position incl. the end and beyond
    for pos0 in 0..=(buf.len() * 8 + 2) {
        for bit in [false, true] {
            rep.eval();
            let mut dst = buf.to_vec();
            let mut pos = pos0;
            let r = guarded(|| (&mut dst[..], &mut pos).write_bit(bit));
            let in_range = pos0 < buf.len() * 8;
            let wit = json!({"op": "write_bit", "target": "tuple", "buf": hex(buf), "pos": pos0, "bit": bit});
            match r {
                Err(p) => rep.violation(&format!("c11:tuple:write_bit:{}:{}", if in_range { "admissible" } else { "inadmissible" }, p.signature()), wit),
                Ok(Ok(())) => {
                    let mut model = bytes_to_bools(buf, buf.len() * 8);
                    if !in_range {
                        rep.violation("c11:tuple:write_bit:ok-on-out-of-range", wit);
                    } else {
                        model[pos0] = bit;
                        if bytes_to_bools(&dst, dst.len() * 8) != model || pos != pos0 + 1 {
                            rep.violation("c11:tuple:write_bit:dst-differs", wit);
                        }
                    }
                }
                Ok(Err(_)) => {
                    if in_range {
                        rep.violation("c11:tuple:write_bit:err-on-in-range", wit);
                    } else if dst != buf || pos != pos0 {
                        rep.violation("c11:tuple:write_bit:failed-op-changed-state", wit);
                    }
                }
            }
        }
        rep.eval();
        let mut pos = pos0;
        let r = guarded(|| (buf, &mut pos).read_bit());
        let in_range = pos0 < buf.len() * 8;
        let wit = json!({"op": "read_bit", "target": "tuple", "buf": hex(buf), "pos": pos0});
        match r {
            Err(p) => rep.violation(&format!("c11:tuple:read_bit:{}:{}", if in_range { "admissible" } else { "inadmissible" }, p.signature()), wit),
            Ok(Ok(b)) => {
                if !in_range {
                    rep.violation("c11:tuple:read_bit:ok-on-out-of-range", wit);
                } else if b != (buf[pos0 / 8] & (0x80 >> (pos0 % 8)) != 0) || pos != pos0 + 1 {
                    rep.violation("c11:tuple:read_bit:wrong-bit", wit);
                }
            }
            Ok(Err(_)) => {
                if in_range {
                    rep.violation("c11:tuple:read_bit:err-on-in-range", wit);
                } else if pos != pos0 {
                    rep.violation("c11:tuple:read_bit:failed-op-changed-state", wit);
                }
            }
        }
    }
}

pub fn exhaustive(rep: &mut Report, max_bytes: usize, grid: usize, shard: u64, nshards: u64) {
    let fills: [(u8, u8); 4] = [(0x00, 0xFF), (0xFF, 0x00), (0xA5, 0x3C), (0x3C, 0xA5)];
    let mut combo = 0u64;
    for sl in 0..=max_bytes {
        for dl in 0..=max_bytes {
            for (sf, df) in fills {
                combo += 1;
                if combo % nshards != shard {
                    continue;
                }
                let src = fill(sl, sf);
                let dst = fill(dl, df);
                for so in 0..=grid {
                    for dp in 0..=grid {
                        for len in 0..=grid {
                            tuple_write_case(rep, &src, &dst, so, dp, len, "write_bits_with_offset_len");
                            tuple_read_case(rep, &src, &dst, so, dp, len, "read_bits_with_offset_len");
                        }
                        // derived entry points (len implied / offset implied)
                        tuple_write_case(rep, &src, &dst, so, dp, (sl * 8).wrapping_sub(so), "write_bits_with_offset");
                        tuple_read_case(rep, &src, &dst, so, dp, (dl * 8).wrapping_sub(dp), "read_bits_with_offset");
                    }
                    // with_len: offset 0
                    for dp in 0..=grid {
                        tuple_write_case(rep, &src, &dst, 0, dp, so, "write_bits_with_len");
                        tuple_read_case(rep, &src, &dst, dp, 0, so, "read_bits_with_len");
                    }
                }
                for dp in 0..=grid {
                    tuple_write_case(rep, &src, &dst, 0, dp, sl * 8, "write_bits");
                    tuple_read_case(rep, &src, &dst, dp, 0, dl * 8, "read_bits");
                }
                if sl == dl {
                    tuple_bit_cases(rep, &src);
                }
            }
        }
    }
}

pub fn random_tuples(rep: &mut Report, rng: &mut Rng, n: u64) {
    for _ in 0..n {
        let sl = rng.range(0, 64) as usize;
        let dl = rng.range(0, 64) as usize;
        let src = rng.bytes(sl);
        let dst = rng.bytes(dl);
        let so = rng.range(0, (sl * 8) as u64 + 3) as usize;
        let dp = rng.range(0, (dl * 8) as u64 + 3) as usize;
        let maxlen = (sl * 8).saturating_sub(so).min((dl * 8).saturating_sub(dp));
        let len = match rng.below(10) {
            0 => maxlen + 1 + rng.range(0, 9) as usize,
            1 => maxlen,
            2 => rng.range(0, 16) as usize,
            _ => rng.range(0, maxlen as u64) as usize,
        };
        tuple_write_case(rep, &src, &dst, so, dp, len, "write_bits_with_offset_len");
        tuple_read_case(rep, &src, &dst, so, dp, len, "read_bits_with_offset_len");
    }
}

// ---------------------------------------------------------------------------------------------
// histories on BitBuffer / Bits

struct Model {
    bits: Vec<bool>,
    rpos: usize,
}

fn check_buffer_shape(rep: &mut Report, bb: &BitBuffer, m: &Model, after: &str, hist: &[String]) {
    let want_len = (m.bits.len() + 7) / 8;
    if bb.bit_len() != m.bits.len() {
        rep.violation(&format!("c11:bitbuffer:{}:bit_len", after), json!({"history": hist, "bit_len": bb.bit_len(), "model": m.bits.len()}));
        return;
    }
    if bb.byte_len() != want_len || bb.content().len() != want_len {
        rep.violation(
            &format!("c11:bitbuffer:{}:byte_len-not-ceil", after),
            json!({"history": hist, "byte_len": bb.byte_len(), "bit_len": bb.bit_len()}),
        );
        return;
    }
    let got = bytes_to_bools(bb.content(), bb.content().len() * 8);
    if got[..m.bits.len()] != m.bits[..] {
        rep.violation(&format!("c11:bitbuffer:{}:content-differs", after), json!({"history": hist, "got": hex(bb.content()), "model": bitstr(&m.bits)}));
    } else if got[m.bits.len()..].iter().any(|b| *b) {
        rep.violation(&format!("c11:bitbuffer:{}:padding-not-zero", after), json!({"history": hist, "got": hex(bb.content()), "bit_len": m.bits.len()}));
    }
}

pub fn histories(rep: &mut Report, rng: &mut Rng, n: u64) {
    for h in 0..n {
        rep.eval();
        let mut bb = BitBuffer::default();
        let mut m = Model { bits: Vec::new(), rpos: 0 };
        let steps = rng.range(1, 60);
        let mut hist: Vec<String> = Vec::new();
        let mut ops_seen = 0u64;
        let viol_at_start: u64 = rep.violations.values().map(|f| f.count).sum();
        let mut diverged = false;
        for _ in 0..steps {
            let op = rng.below(12);
            let sl = rng.range(0, 9) as usize;
            let src = rng.bytes(sl);
            let srcb = bytes_to_bools(&src, sl * 8);
            match op {
                0 => {
                    let b = rng.bool();
                    hist.push(format!("write_bit({})", b));
                    match guarded(|| bb.write_bit(b)) {
                        Ok(Ok(())) => m.bits.push(b),
                        Ok(Err(_)) => rep.violation("c11:bitbuffer:write_bit:err", json!({"history": hist})),
                        Err(p) => rep.violation(&format!("c11:bitbuffer:write_bit:{}", p.signature()), json!({"history": hist})),
                    }
                }
                1..=4 => {
                    // the four write_bits* entry points, sometimes inadmissible
                    let off = if rng.chance(1, 8) { sl * 8 + rng.range(1, 9) as usize } else { rng.range(0, (sl * 8) as u64) as usize };
                    let avail = (sl * 8).saturating_sub(off);
                    let len = if rng.chance(1, 8) { avail + rng.range(1, 20) as usize } else { rng.range(0, avail as u64) as usize };
                    let (name, eoff, elen, r) = match op {
                        1 => ("write_bits", 0, sl * 8, guarded(|| bb.write_bits(&src))),
                        2 => ("write_bits_with_offset", off, (sl * 8).wrapping_sub(off), guarded(|| bb.write_bits_with_offset(&src, off))),
                        3 => ("write_bits_with_len", 0, len, guarded(|| bb.write_bits_with_len(&src, len))),
                        _ => ("write_bits_with_offset_len", off, len, guarded(|| bb.write_bits_with_offset_len(&src, off, len))),
                    };
                    hist.push(format!("{}(src={}, off={}, len={})", name, hex(&src), eoff, elen));
                    let admissible = eoff.checked_add(elen).map(|e| e <= sl * 8).unwrap_or(false);
                    match r {
                        Ok(Ok(())) => {
                            if admissible {
                                m.bits.extend_from_slice(&srcb[eoff..eoff + elen]);
                            } else {
                                rep.violation(&format!("c11:bitbuffer:{}:ok-on-out-of-range", name), json!({"history": hist}));
                            }
                        }
                        Ok(Err(_)) => {
                            if admissible {
                                rep.violation(&format!("c11:bitbuffer:{}:err-on-in-range", name), json!({"history": hist}));
                            } else {
                                rep.hist("outcomes", "bitbuffer-write-rejected");
                            }
                        }
                        Err(p) => rep.violation(
                            &format!("c11:bitbuffer:{}:{}:{}", name, if admissible { "admissible" } else { "inadmissible" }, p.signature()),
                            json!({"history": hist}),
                        ),
                    }
                }
                5 => {
                    // overwrite in the middle through with_write_position_at (in range)
                    if m.bits.len() >= 2 {
                        let pos = if rng.chance(1, 2) { ((rng.range(0, (m.bits.len() / 8) as u64) * 8) as usize).min(m.bits.len() - 1) / 8 * 8 } else { rng.range(0, m.bits.len() as u64 - 1) as usize };
                        let room = m.bits.len() - pos;
                        let len = rng.range(0, room.min(sl * 8) as u64) as usize;
                        let which = rng.below(4);
                        hist.push(format!("with_write_position_at({}, variant {} src={} len={})", pos, which, hex(&src), len));
                        let r = match which {
                            0 => guarded(|| bb.with_write_position_at(pos, |b| b.write_bits_with_len(&src, len))),
                            1 => guarded(|| bb.with_write_position_at(pos, |b| b.write_bits_with_offset_len(&src, 0, len))),
                            2 if sl * 8 <= room => guarded(|| bb.with_write_position_at(pos, |b| b.write_bits(&src))),
                            _ => guarded(|| bb.with_write_position_at(pos, |b| b.write_bit(true))),
                        };
                        match r {
                            Ok(Ok(())) => match which {
                                0 | 1 => {
                                    for i in 0..len {
                                        m.bits[pos + i] = srcb[i];
                                    }
                                }
                                2 if sl * 8 <= room => {
                                    for i in 0..sl * 8 {
                                        m.bits[pos + i] = srcb[i];
                                    }
                                }
                                _ => m.bits[pos] = true,
                            },
                            Ok(Err(_)) => rep.violation("c11:bitbuffer:with_write_position_at:err-on-in-range", json!({"history": hist})),
                            Err(p) => rep.violation(&format!("c11:bitbuffer:with_write_position_at:{}", p.signature()), json!({"history": hist})),
                        }
                    }
                }
                6 => {
                    hist.push("read_bit".into());
                    match guarded(|| bb.read_bit()) {
                        Ok(Ok(b)) => {
                            if m.rpos >= m.bits.len() {
                                rep.violation("c11:bitbuffer:read_bit:ok-beyond-bit_len", json!({"history": hist}));
                            } else if b != m.bits[m.rpos] {
                                rep.violation("c11:bitbuffer:read_bit:wrong-bit", json!({"history": hist}));
                            }
                            m.rpos += 1;
                        }
                        Ok(Err(_)) => {
                            if m.rpos < m.bits.len() {
                                rep.violation("c11:bitbuffer:read_bit:err-on-in-range", json!({"history": hist}));
                            }
                        }
                        Err(p) => rep.violation(&format!("c11:bitbuffer:read_bit:{}", p.signature()), json!({"history": hist})),
                    }
                }
                7..=9 => {
                    let dl = rng.range(0, 6) as usize;
                    let mut dst = rng.bytes(dl);
                    let dst0 = dst.clone();
                    let off = rng.range(0, (dl * 8) as u64) as usize;
                    let room = dl * 8 - off;
                    let len = rng.range(0, room as u64) as usize;
                    let (name, eoff, elen, r) = match op {
                        7 => ("read_bits", 0, dl * 8, guarded(|| bb.read_bits(&mut dst))),
                        8 => ("read_bits_with_offset", off, dl * 8 - off, guarded(|| bb.read_bits_with_offset(&mut dst, off))),
                        _ => ("read_bits_with_offset_len", off, len, guarded(|| bb.read_bits_with_offset_len(&mut dst, off, len))),
                    };
                    hist.push(format!("{}(dst={}, off={}, len={})", name, hex(&dst0), eoff, elen));
                    let avail = m.bits.len().saturating_sub(m.rpos);
                    let admissible = elen <= avail;
                    match r {
                        Ok(Ok(())) => {
                            if !admissible {
                                rep.violation(&format!("c11:bitbuffer:{}:ok-beyond-bit_len", name), json!({"history": hist, "bit_len": m.bits.len(), "read_pos": m.rpos}));
                                // resynchronise: continue as the code did
                                m.rpos += elen;
                            } else {
                                let mut md = bytes_to_bools(&dst0, dl * 8);
                                model_copy(&m.bits, m.rpos, &mut md, eoff, elen);
                                if bytes_to_bools(&dst, dl * 8) != md {
                                    rep.violation(&format!("c11:bitbuffer:{}:dst-differs", name), json!({"history": hist, "got": hex(&dst), "model": hex(&bools_to_bytes(&md))}));
                                }
                                m.rpos += elen;
                            }
                        }
                        Ok(Err(_)) => {
                            if admissible {
                                rep.violation(&format!("c11:bitbuffer:{}:err-on-in-range", name), json!({"history": hist}));
                            } else if dst != dst0 {
                                rep.violation(&format!("c11:bitbuffer:{}:failed-op-changed-dst", name), json!({"history": hist}));
                            }
                        }
                        Err(p) => rep.violation(&format!("c11:bitbuffer:{}:{}", name, p.signature()), json!({"history": hist})),
                    }
                }
                10 => {
                    // Bits view over the content: random reads within / beyond the declared length
                    let content = bb.content().to_vec();
                    let blen = bb.bit_len();
                    bits_view_case(rep, rng, &content, blen, &m.bits, &hist);
                }
                _ => {
                    hist.push("reset_read_position".into());
                    bb.reset_read_position();
                    m.rpos = 0;
                }
            }
            ops_seen += 1;
            check_buffer_shape(rep, &bb, &m, "after-op", &hist);
            let nviol: u64 = rep.violations.values().map(|f| f.count).sum();
            if nviol > viol_at_start {
                diverged = true;
                break; // model and code diverged; stop this history (secondary differences are not counted)
            }
            if m.rpos > m.bits.len() {
                break;
            }
        }
        // drain: determines the read cursor
        if !diverged && m.rpos <= m.bits.len() && m.bits.len() == bb.bit_len() {
            let mut k = m.rpos;
            loop {
                match guarded(|| bb.read_bit()) {
                    Ok(Ok(b)) => {
                        if k >= m.bits.len() || b != m.bits[k] {
                            rep.violation("c11:bitbuffer:drain:differs", json!({"history": hist, "at": k}));
                            break;
                        }
                        k += 1;
                    }
                    Ok(Err(_)) => {
                        if k != m.bits.len() {
                            rep.violation("c11:bitbuffer:drain:short", json!({"history": hist, "at": k, "bit_len": m.bits.len()}));
                        }
                        break;
                    }
                    Err(p) => {
                        rep.violation(&format!("c11:bitbuffer:drain:{}", p.signature()), json!({"history": hist}));
                        break;
                    }
                }
            }
        }
        if ops_seen >= 3 {
            rep.distinct(hash_str(&hist.join(";")));
        }
        if h < 2 {
            rep.sample(json!({"history": hist}));
        }
    }
}

fn bits_view_case(rep: &mut Report, rng: &mut Rng, content: &[u8], blen: usize, model: &[bool], hist: &[String]) {
    let mut bits = Bits::from((content, blen));
    let start = rng.range(0, blen as u64) as usize;
    bits.set_pos(start);
    let dl = rng.range(0, 5) as usize;
    let mut dst = vec![0u8; dl];
    let off = rng.range(0, (dl * 8) as u64) as usize;
    let len = rng.range(0, (dl * 8 - off) as u64) as usize;
    let avail = blen - start;
    let r = guarded(|| bits.read_bits_with_offset_len(&mut dst, off, len));
    let wit = json!({"history": hist, "bits_view": {"start": start, "declared_len": blen, "dst_bytes": dl, "off": off, "len": len}});
    match r {
        Ok(Ok(())) => {
            if len > avail {
                rep.violation("c11:bits:read_bits_with_offset_len:ok-beyond-declared-len", wit);
            } else {
                let mut md = vec![false; dl * 8];
                model_copy(model, start, &mut md, off, len);
                if bytes_to_bools(&dst, dl * 8) != md || bits.pos() != start + len {
                    rep.violation("c11:bits:read_bits_with_offset_len:differs", wit);
                }
            }
        }
        Ok(Err(_)) => {
            if len <= avail {
                rep.violation("c11:bits:read_bits_with_offset_len:err-on-in-range", wit);
            } else if bits.pos() != start {
                rep.violation("c11:bits:read_bits_with_offset_len:failed-op-moved-cursor", wit);
            }
        }
        Err(p) => rep.violation(&format!("c11:bits:read_bits_with_offset_len:{}", p.signature()), wit),
    }
    // accessors stay callable
    if let Err(p) = guarded(|| (bits.pos(), bits.len(), bits.remaining())) {
        rep.violation(&format!("c11:bits:accessors:{}", p.signature()), json!({"history": hist}));
    }
}

pub fn run(rep: &mut Report, tier: &str, seed: u64, shard: u64, nshards: u64, miri: bool) {
    rep.rule = "exhaustive: (src bytes, dst bytes) in 0..=MAXB with 4 fill pairs x (src_off, dst_pos, len) in [0,GRID]^3 through every tuple entry point (read and write) incl. out-of-range; random tuples to 64 bytes; random BitBuffer/Bits histories mirrored on a Vec<bool>. distinct = distinct (entry point, sizes, offsets, len) with len > 0, resp. distinct histories of >= 3 operations".into();
    let (maxb, grid, nrand, nhist) = if miri {
        (2usize, 4usize, 40u64, 8u64)
    } else if tier == "quick" {
        (3, 33, 100_000 / nshards, 20_000 / nshards)
    } else {
        (5, 41, 1_000_000 / nshards, 100_000 / nshards)
    };
    exhaustive(rep, maxb, grid, shard, nshards);
    let mut rng = Rng::derive(seed, &["C11", "random"], shard);
    random_tuples(rep, &mut rng, nrand);
    let mut rng = Rng::derive(seed, &["C11", "hist"], shard);
    histories(rep, &mut rng, nhist);
    rep.exhaustive = true;
    rep.notes.push(format!("exhaustive part: buffers <= {} bytes, grid [0,{}]^3", maxb, grid));
    // coverage floor: every (src%8, dst%8, len%8, len>16) class seen
    let seen = rep.hist.get("classes").map(|c| c.len()).unwrap_or(0);
    rep.floor.insert("alignment-classes-seen".into(), seen as u64);
    if nshards == 1 && seen < 8 * 8 * 8 * 2 - 8 * 8 * 2 {
        rep.inconclusive(&format!("only {} alignment classes seen", seen));
    }
}
