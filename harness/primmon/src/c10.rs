//! C10: PER primitive codecs vs R-prim (closed-form bit patterns written from X.691 in vgen::per).
use asn1rs::protocol::per::unaligned::buffer::BitBuffer;
use asn1rs::protocol::per::unaligned::BitWrite;
use asn1rs::protocol::per::{Error, PackedRead, PackedWrite};
use asn1rs::rw::{Bits, ScopedBitRead};
use monitors::journal::guarded;
use monitors::report::Report;
use serde_json::{json, Value};
use std::fmt::Debug;
use vgen::bits::*;
use vgen::per::*;
use vgen::rng::{hash_str, Rng};
use vgen::schema::{Bound, Size};

#[derive(Clone, Copy, PartialEq, Eq, Debug)]
pub enum Adm {
    Admissible,
    Inadmissible,
    /// only "no panic" is demanded (the property does not say whether the argument is admissible)
    Unspecified,
}

pub struct Case<'a> {
    pub prim: &'a str,
    pub class: String,
    pub args: Value,
}

fn buffer_shape_ok(bb: &BitBuffer) -> bool {
    let n = bb.bit_len();
    if bb.byte_len() != (n + 7) / 8 {
        return false;
    }
    let bits = bytes_to_bools(bb.content(), bb.content().len() * 8);
    !bits[n..].iter().any(|b| *b)
}

/// Run one primitive case. `reference` is the X.691 bit pattern (None when inadmissible),
/// `deviation` an alternative pattern of a recorded deviation model with its class name.
#[allow(clippy::too_many_arguments)]
pub fn run_case<V: PartialEq + Debug>(
    rep: &mut Report,
    c: Case,
    adm: Adm,
    reference: Option<&BitOut>,
    deviation: Option<(&'static str, BitOut)>,
    write: impl FnOnce(&mut BitBuffer) -> Result<(), Error>,
    read: impl Fn(&mut Bits) -> Result<V, Error>,
    value: &V,
) {
    // the interpreter runs about four orders of magnitude slower: every fifth case of the reduced enumeration
    if cfg!(miri) {
        static MIRI_COUNTER: std::sync::atomic::AtomicU64 = std::sync::atomic::AtomicU64::new(0);
        if MIRI_COUNTER.fetch_add(1, std::sync::atomic::Ordering::Relaxed) % 5 != 0 {
            return;
        }
    }
    rep.eval();
    let sig = |what: &str| format!("c10:{}:{}:{}", c.prim, c.class, what);
    // start at a non-aligned position so every primitive is exercised mid-byte as well
    let lead = (hash_str(&c.class) % 8) as usize;
    let mut bb = BitBuffer::default();
    for i in 0..lead {
        let _ = bb.write_bit(i % 2 == 0);
    }
    let r = guarded(|| write(&mut bb));
    match r {
        Err(p) => {
            let a = match adm {
                Adm::Admissible => "admissible",
                Adm::Inadmissible => "inadmissible",
                Adm::Unspecified => "unspecified",
            };
            rep.violation(&sig(&format!("{}:{}", a, p.signature())), c.args.clone());
        }
        Ok(Err(e)) => {
            if adm == Adm::Admissible {
                rep.violation(&sig(&format!("err-on-admissible:{}", kind_name(&e))), c.args.clone());
            } else {
                rep.hist("outcomes", "rejected-inadmissible");
            }
        }
        Ok(Ok(())) => {
            if !buffer_shape_ok(&bb) {
                rep.violation(&sig("buffer-shape"), c.args.clone());
            }
            match adm {
                Adm::Inadmissible => {
                    rep.violation(&sig("ok-on-inadmissible"), c.args.clone());
                    return;
                }
                Adm::Unspecified => return,
                Adm::Admissible => {}
            }
            let all = bytes_to_bools(bb.content(), bb.bit_len());
            let got = &all[lead..];
            let reference = reference.expect("reference for admissible case");
            let mut canonical = true;
            if got != &reference.bits[..] {
                canonical = false;
                match &deviation {
                    Some((dclass, d)) if got == &d.bits[..] => {
                        rep.violation_class(&sig(&format!("deviation:{}", dclass)), dclass, json!({"args": c.args, "got": bitstr_short(got), "x691": bitstr_short(&reference.bits)}));
                    }
                    _ => {
                        rep.violation(
                            &sig(if got.len() != reference.bits.len() { "bits-differ:length" } else { "bits-differ:content" }),
                            json!({"args": c.args, "got": bitstr_short(got), "x691": bitstr_short(&reference.bits)}),
                        );
                    }
                }
            }
            // read back what was written: value and cursor
            let content = bb.content().to_vec();
            let mut bits = Bits::from((&content[..], bb.bit_len()));
            bits.set_pos(lead);
            match guarded(|| read(&mut bits)) {
                Err(p) => rep.violation(&sig(&format!("read-own:{}", p.signature())), c.args.clone()),
                Ok(Err(e)) => rep.violation(&sig(&format!("read-own:err:{}", kind_name(&e))), c.args.clone()),
                Ok(Ok(v)) => {
                    if &v != value {
                        rep.violation(&sig("read-own:value-differs"), json!({"args": c.args, "read": format!("{:?}", v).chars().take(200).collect::<String>()}));
                    } else if bits.pos() != bb.bit_len() {
                        rep.violation(&sig("read-own:cursor"), json!({"args": c.args, "pos": bits.pos(), "len": bb.bit_len()}));
                    }
                }
            }
            // read the canonical X.691 pattern (only if the writer deviated; otherwise it is the same bits)
            if !canonical {
                let mut cbits = vec![false; lead];
                cbits.extend_from_slice(&reference.bits);
                let bytes = bools_to_bytes(&cbits);
                let mut bits = Bits::from((&bytes[..], cbits.len()));
                bits.set_pos(lead);
                match guarded(|| read(&mut bits)) {
                    Err(p) => rep.violation(&sig(&format!("read-x691:{}", p.signature())), c.args.clone()),
                    Ok(Err(e)) => rep.violation(&sig(&format!("read-x691:err:{}", kind_name(&e))), c.args.clone()),
                    Ok(Ok(v)) => {
                        if &v != value || bits.pos() != cbits.len() {
                            rep.violation(&sig("read-x691:differs"), c.args.clone());
                        }
                    }
                }
            }
            rep.hist("classes", &format!("{}:{}", c.prim, c.class));
            rep.distinct(hash_str(&format!("{}{}", c.prim, c.args)));
        }
    }
}

pub fn kind_name(e: &Error) -> String {
    let s = format!("{:?}", e.kind());
    s.split(|c: char| !c.is_alphanumeric()).next().unwrap_or("").to_string()
}

fn bitstr_short(b: &[bool]) -> String {
    let s = bitstr(b);
    if s.len() > 96 {
        format!("{}…({} bits)", &s[..96], s.len())
    } else {
        s
    }
}

fn range_class(r: u128) -> &'static str {
    match r {
        1 => "r1",
        2 => "r2",
        3..=255 => "r3-255",
        256 => "r256",
        257..=65535 => "r257-65535",
        65536 => "r65536",
        _ if r <= 1 << 32 => "r<=2^32",
        _ if r <= 1 << 62 => "r<=2^62",
        _ => "r>2^62",
    }
}

fn len_class(n: u64) -> &'static str {
    match n {
        0 => "n0",
        1..=127 => "n<128",
        128..=16383 => "n<16K",
        _ if n % 16384 == 0 => "n=k*16K",
        16385..=65535 => "n<64K",
        _ => "n>=64K",
    }
}

fn bounds_class(lb: Option<u64>, ub: Option<u64>, ext: bool) -> String {
    let u = match ub {
        None => "ubNone",
        Some(u) if u < 65536 => "ub<64K",
        Some(65536) => "ub=64K",
        Some(_) => "ub>64K",
    };
    let l = match lb {
        None => "lbNone",
        Some(0) => "lb0",
        Some(_) => "lb+",
    };
    let f = if lb.is_some() && lb == ub { ":fixed" } else { "" };
    format!("{}:{}{}{}", l, u, f, if ext { ":ext" } else { "" })
}

// ---------------------------------------------------------------------------------------------

fn cwn_case(rep: &mut Report, lb: i64, ub: i64, v: i64) {
    let wide = (ub as i128) - (lb as i128);
    let adm = if lb > ub || wide > i64::MAX as i128 {
        Adm::Inadmissible
    } else if v < lb || v > ub {
        Adm::Inadmissible
    } else {
        Adm::Admissible
    };
    let mut reference = BitOut::new();
    if adm == Adm::Admissible {
        cwn(&mut reference, lb as i128, ub as i128, v as i128);
    }
    let class = if lb > ub {
        "lb>ub".to_string()
    } else if wide > i64::MAX as i128 {
        "range>i64".to_string()
    } else {
        format!("{}{}", range_class(wide as u128 + 1), if v < lb { ":v<lb" } else if v > ub { ":v>ub" } else { "" })
    };
    run_case(
        rep,
        Case { prim: "constrained_whole_number", class, args: json!({"lb": lb, "ub": ub, "v": v}) },
        adm,
        Some(&reference),
        None,
        |b| b.write_constrained_whole_number(lb, ub, v),
        |r| r.read_constrained_whole_number(lb, ub),
        &v,
    );
}

fn nnbi_case(rep: &mut Report, lb: Option<u64>, ub: Option<u64>, v: u64) {
    let l = lb.unwrap_or(0);
    let u = ub.unwrap_or(i64::MAX as u64);
    let mut reference = BitOut::new();
    let adm = if lb.is_none() && ub.is_none() {
        semi(&mut reference, 0, v as i128);
        Adm::Admissible
    } else if l > u || v < l || v > u {
        Adm::Inadmissible
    } else {
        reference.push_uint((v - l) as u128, width_for_range((u - l) as u128 + 1));
        Adm::Admissible
    };
    let class = if lb.is_none() && ub.is_none() {
        "unbounded".to_string()
    } else if l > u {
        "lb>ub".into()
    } else {
        format!(
            "{}:{}{}",
            match (lb, ub) {
                (Some(_), Some(_)) => "both",
                (None, Some(_)) => "ub-only",
                _ => "lb-only",
            },
            range_class((u - l) as u128 + 1),
            if v < l { ":v<lb" } else if v > u { ":v>ub" } else { "" }
        )
    };
    run_case(
        rep,
        Case { prim: "non_negative_binary_integer", class, args: json!({"lb": lb, "ub": ub, "v": v}) },
        adm,
        Some(&reference),
        None,
        |b| b.write_non_negative_binary_integer(lb, ub, v),
        |r| r.read_non_negative_binary_integer(lb, ub),
        &v,
    );
}

fn length_case(rep: &mut Report, lb: Option<u64>, ub: Option<u64>, v: u64) {
    let l = lb.unwrap_or(0);
    let mut reference = BitOut::new();
    let deviation: Option<(&'static str, BitOut)> = None;
    // the value the reader must return: the count covered by this determinant (first fragment for >= 16K)
    let mut expect = v;
    let adm = match ub {
        Some(u) if u < 65536 => {
            if l > u || v < l || v > u {
                Adm::Inadmissible
            } else {
                if l != u {
                    cwn(&mut reference, l as i128, u as i128, v as i128);
                }
                Adm::Admissible
            }
        }
        _ => {
            // 11.9.4.2: general form; lb is not used
            if ub.map(|u| v > u).unwrap_or(false) || v < l {
                Adm::Inadmissible
            } else {
                if v < 16384 {
                    lenu(&mut reference, v as usize);
                } else {
                    let m = (v / 16384).min(4);
                    reference.push(true);
                    reference.push(true);
                    reference.push_uint(m as u128, 6);
                    expect = m * 16384;
                }
                Adm::Admissible
            }
        }
    };
    let class = format!("{}:{}{}", bounds_class(lb, ub, false), len_class(v), if adm == Adm::Inadmissible { ":out-of-range" } else { "" });
    let dev_applies = deviation.is_some();
    let mut frag_ret: Option<Option<u64>> = None;
    run_case(
        rep,
        Case { prim: "length_determinant", class: class.clone(), args: json!({"lb": lb, "ub": ub, "v": v}) },
        adm,
        Some(&reference),
        deviation,
        |b| {
            let r = b.write_length_determinant(lb, ub, v)?;
            frag_ret = Some(r);
            Ok(())
        },
        |r| r.read_length_determinant(lb, ub),
        &(if dev_applies { v } else { expect }),
    );
    // the returned fragment size drives the callers' fragment loops
    if adm == Adm::Admissible && !dev_applies {
        if let Some(r) = frag_ret {
            let want = if v >= 16384 && !matches!(ub, Some(u) if u < 65536) { Some(expect) } else { None };
            if r != want {
                rep.violation(&format!("c10:length_determinant:{}:returned-fragment-size", class), json!({"lb": lb, "ub": ub, "v": v, "returned": r, "want": want}));
            }
        }
    }
}

fn index_case(rep: &mut Report, choice: bool, std: u64, ext: bool, idx: u64) {
    let mut reference = BitOut::new();
    let adm = if std == 0 {
        if ext {
            // an extensible type with an empty root is not legal ASN.1; only "no panic" is demanded
            Adm::Unspecified
        } else {
            Adm::Inadmissible
        }
    } else if idx < std {
        if ext {
            reference.push(false);
        }
        cwn(&mut reference, 0, std as i128 - 1, idx as i128);
        Adm::Admissible
    } else if ext {
        reference.push(true);
        nsnn(&mut reference, (idx - std) as u128);
        Adm::Admissible
    } else {
        Adm::Inadmissible
    };
    let class = format!(
        "{}:{}:{}",
        if std == 0 { "std0".to_string() } else { range_class(std as u128).to_string() },
        if ext { "ext" } else { "noext" },
        if idx < std { "root".to_string() } else { format!("add{}", if idx - std < 64 { "<64" } else { ">=64" }) }
    );
    let prim = if choice { "choice_index" } else { "enumeration_index" };
    run_case(
        rep,
        Case { prim, class, args: json!({"std": std, "ext": ext, "idx": idx}) },
        adm,
        Some(&reference),
        None,
        |b| if choice { b.write_choice_index(std, ext, idx) } else { b.write_enumeration_index(std, ext, idx) },
        |r| if choice { r.read_choice_index(std, ext) } else { r.read_enumeration_index(std, ext) },
        &idx,
    );
}

fn nsnn_case(rep: &mut Report, v: u64, as_length: bool) {
    let mut reference = BitOut::new();
    nsnn(&mut reference, v as u128);
    let class = if v < 64 { "v<64" } else if v == 64 { "v=64" } else if v < 256 { "v<256" } else if v < 65536 { "v<64K" } else { "v>=64K" };
    if as_length {
        run_case(
            rep,
            Case { prim: "normally_small_length", class: class.into(), args: json!({"v": v}) },
            Adm::Admissible,
            Some(&reference),
            None,
            |b| b.write_normally_small_length(v),
            |r| r.read_normally_small_length(),
            &v,
        );
    } else {
        run_case(
            rep,
            Case { prim: "normally_small_non_negative_whole_number", class: class.into(), args: json!({"v": v}) },
            Adm::Admissible,
            Some(&reference),
            None,
            |b| b.write_normally_small_non_negative_whole_number(v),
            |r| r.read_normally_small_non_negative_whole_number(),
            &v,
        );
    }
}

fn semi_case(rep: &mut Report, lb: i64, v: i64) {
    let mut reference = BitOut::new();
    let adm = if v < lb {
        Adm::Inadmissible
    } else {
        semi(&mut reference, lb as i128, v as i128);
        Adm::Admissible
    };
    let d = (v as i128) - (lb as i128);
    let class = if v < lb {
        "v<lb".to_string()
    } else if d > i64::MAX as i128 {
        "offset>i64".into()
    } else {
        format!("octets{}", uint_octets(d as u128).len())
    };
    run_case(
        rep,
        Case { prim: "semi_constrained_whole_number", class, args: json!({"lb": lb, "v": v}) },
        adm,
        Some(&reference),
        None,
        |b| b.write_semi_constrained_whole_number(lb, v),
        |r| r.read_semi_constrained_whole_number(lb),
        &v,
    );
}

fn unc_case(rep: &mut Report, v: i64) {
    let mut reference = BitOut::new();
    unc(&mut reference, v as i128);
    let class = format!("octets{}{}", sint_octets(v as i128).len(), if v < 0 { "neg" } else { "" });
    run_case(
        rep,
        Case { prim: "unconstrained_whole_number", class, args: json!({"v": v}) },
        Adm::Admissible,
        Some(&reference),
        None,
        |b| b.write_unconstrained_whole_number(v),
        |r| r.read_unconstrained_whole_number(),
        &v,
    );
}

fn twos_case(rep: &mut Report, bit_len: u64, v: i64) {
    let mut reference = BitOut::new();
    let fits = (1..=64).contains(&bit_len)
        && (bit_len == 64 || (v >= -(1i64 << (bit_len - 1)) && v < (1i64 << (bit_len - 1))));
    let adm = if bit_len == 0 {
        Adm::Unspecified
    } else if fits {
        reference.push_uint(v as i128 as u128, bit_len as u32);
        Adm::Admissible
    } else {
        Adm::Inadmissible
    };
    let class = if bit_len == 0 {
        "len0".to_string()
    } else if bit_len > 64 {
        "len>64".into()
    } else if !fits {
        "value-does-not-fit".into()
    } else {
        format!("len{}{}", if bit_len % 8 == 0 { "%8=0" } else { "%8!=0" }, if v < 0 { ":neg" } else { "" })
    };
    run_case(
        rep,
        Case { prim: "2s_compliment_binary_integer", class, args: json!({"bit_len": bit_len, "v": v}) },
        adm,
        Some(&reference),
        None,
        |b| b.write_2s_compliment_binary_integer(bit_len, v),
        |r| r.read_2s_compliment_binary_integer(bit_len),
        &v,
    );
}

fn size_of(lb: Option<u64>, ub: Option<u64>, ext: bool) -> Size {
    match (lb, ub) {
        (None, None) => Size::None,
        (l, Some(u)) if l.unwrap_or(0) == u && l.is_some() => Size::Fixed(Bound::Lit(u as i128), ext),
        (l, Some(u)) => Size::Range(Bound::Lit(l.unwrap_or(0) as i128), Bound::Lit(u as i128), ext),
        (Some(l), None) => Size::Range(Bound::Lit(l as i128), Bound::Max, ext),
    }
}

fn string_adm(lb: Option<u64>, ub: Option<u64>, ext: bool, n: u64) -> (Adm, bool) {
    let l = lb.unwrap_or(0);
    let u = ub.unwrap_or(u64::MAX);
    if ext && (l > u || (lb.is_none() && ub.is_none())) {
        // an extensible size constraint with an empty or absent root is not legal ASN.1: only "no panic" is demanded
        return (Adm::Unspecified, false);
    }
    if l > u {
        return (Adm::Inadmissible, false);
    }
    let in_root = n >= l && n <= u;
    if !in_root && !ext {
        (Adm::Inadmissible, false)
    } else {
        (Adm::Admissible, in_root)
    }
}

fn octet_case(rep: &mut Report, lb: Option<u64>, ub: Option<u64>, ext: bool, data: &[u8]) {
    let n = data.len() as u64;
    let (adm, in_root) = string_adm(lb, ub, ext, n);
    let size = size_of(lb, ub, ext);
    let mut reference = BitOut::new();
    let mut deviation = None;
    if adm == Adm::Admissible {
        sized(&mut reference, &size, data.len(), &mut |o, i| o.push_uint(data[i] as u128, 8), false).unwrap();
        if in_root && size.bounds().map(|(_, u)| u.map(|u| u >= 65536).unwrap_or(true)).unwrap_or(false) {
            let mut d = BitOut::new();
            sized(&mut d, &size, data.len(), &mut |o, i| o.push_uint(data[i] as u128, 8), true).unwrap();
            deviation = Some(("len-large-ub", d));
        }
    }
    let class = format!(
        "{}:{}{}",
        bounds_class(lb, ub, ext),
        len_class(n),
        match (adm, in_root) {
            (Adm::Inadmissible, _) => ":out-of-range",
            (_, false) => ":ext-form",
            _ => "",
        }
    );
    let want = data.to_vec();
    run_case(
        rep,
        Case { prim: "octetstring", class, args: json!({"lb": lb, "ub": ub, "ext": ext, "len": n, "first": data.first()}) },
        adm,
        Some(&reference),
        deviation,
        |b| b.write_octetstring(lb, ub, ext, data),
        |r| r.read_octetstring(lb, ub, ext),
        &want,
    );
}

fn bitstring_case(rep: &mut Report, lb: Option<u64>, ub: Option<u64>, ext: bool, src: &[u8], offset: u64, len: u64) {
    let src_bits = bytes_to_bools(src, src.len() * 8);
    let src_ok = offset.checked_add(len).map(|e| e <= src_bits.len() as u64).unwrap_or(false);
    let (mut adm, in_root) = string_adm(lb, ub, ext, len);
    if !src_ok {
        adm = Adm::Inadmissible;
    }
    let size = size_of(lb, ub, ext);
    let mut reference = BitOut::new();
    let mut deviation = None;
    let mut want = (Vec::new(), len);
    if adm == Adm::Admissible {
        let bits = &src_bits[offset as usize..(offset + len) as usize];
        sized(&mut reference, &size, bits.len(), &mut |o, i| o.push(bits[i]), false).unwrap();
        if in_root && size.bounds().map(|(_, u)| u.map(|u| u >= 65536).unwrap_or(true)).unwrap_or(false) {
            let mut d = BitOut::new();
            sized(&mut d, &size, bits.len(), &mut |o, i| o.push(bits[i]), true).unwrap();
            deviation = Some(("len-large-ub", d));
        }
        want = (bools_to_bytes(bits), len);
    }
    let class = format!(
        "{}:{}:off{}{}",
        bounds_class(lb, ub, ext),
        len_class(len),
        if offset % 8 == 0 { "%8=0" } else { "%8!=0" },
        if !src_ok {
            ":beyond-source"
        } else {
            match (adm, in_root) {
                (Adm::Inadmissible, _) => ":out-of-range",
                (_, false) => ":ext-form",
                _ => "",
            }
        }
    );
    run_case(
        rep,
        Case { prim: "bitstring", class, args: json!({"lb": lb, "ub": ub, "ext": ext, "src_bytes": src.len(), "offset": offset, "len": len}) },
        adm,
        Some(&reference),
        deviation,
        |b| b.write_bitstring(lb, ub, ext, src, offset, len),
        |r| r.read_bitstring(lb, ub, ext),
        &want,
    );
}

pub const BOUND_TABLE: &[(Option<u64>, Option<u64>)] = &[
    (None, None),
    (Some(0), None),
    (Some(3), None),
    (None, Some(0)),
    (Some(0), Some(0)),
    (None, Some(5)),
    (Some(0), Some(5)),
    (Some(5), Some(5)),
    (Some(2), Some(2)),
    (Some(16), Some(16)),
    (Some(17), Some(17)),
    (Some(3), Some(10)),
    (Some(0), Some(127)),
    (Some(0), Some(128)),
    (Some(0), Some(255)),
    (Some(1), Some(256)),
    (Some(100), Some(300)),
    (Some(0), Some(16383)),
    (Some(0), Some(16384)),
    (Some(0), Some(65534)),
    (Some(0), Some(65535)),
    (Some(1), Some(65535)),
    (Some(65535), Some(65535)),
    (Some(0), Some(65536)),
    (Some(5), Some(70000)),
    (Some(65536), Some(65536)),
    (Some(70000), Some(70000)),
    (Some(0), Some(200_000)),
    (Some(1), Some(1 << 32)),
    (Some(10), Some(5)),
];

pub fn large_lengths() -> Vec<u64> {
    vec![16383, 16384, 16385, 16389, 32767, 32768, 32769, 49152, 65535, 65536, 65537, 81920, 98304, 100_000, 131072, 147456, 200_000]
}

pub fn run(rep: &mut Report, tier: &str, seed: u64, shard: u64, nshards: u64, miri: bool) {
    rep.rule = "every public PackedWrite primitive against R-prim (X.691 bit pattern), read back from own and from canonical bits with cursor check. exhaustive: constrained whole numbers lb in [-40,40] x |range| 1..=300 x every value (+ lb-1, ub+1); non-negative-binary-integer in the three bound forms; length determinants for the bound table x lengths 0..=300 + large; enumeration/choice index std 1..=300 x ext x index <= std+130; normally small 0..=20000; boundary families 2^k+-1 and i64 extremes for semi/unconstrained/2s-complement; octet/bit strings at every length 0..=300 and at 16383..200000 for the bound table x ext x source offsets 0..7. distinct = distinct (primitive, arguments) that produced bits".into();
    let mut rng = Rng::derive(seed, &["C10"], shard);
    let mine = |k: u64| k % nshards == shard;
    let (lbmax, rmax, strmax) = if miri { (3i64, 20i64, 20u64) } else if tier == "quick" { (40, 300, 300) } else { (40, 300, 300) };
    // 1. constrained whole numbers, exhaustive
    let mut k = 0u64;
    for lb in -lbmax..=lbmax {
        k += 1;
        if !mine(k) {
            continue;
        }
        for r in 1..=rmax {
            let ub = lb + r - 1;
            for v in lb..=ub {
                cwn_case(rep, lb, ub, v);
            }
            cwn_case(rep, lb, ub, lb - 1);
            cwn_case(rep, lb, ub, ub + 1);
        }
        cwn_case(rep, lb, lb - 1, lb);
    }
    // boundary families
    let pool: Vec<i64> = vgen::gen::boundary_pool().into_iter().map(|v| v as i64).collect();
    // under the interpreter a thinned pool (the pair loops below are quadratic in it)
    let pool: Vec<i64> = if miri { pool.into_iter().step_by(11).collect() } else { pool };
    if mine(1) {
        for &a in &pool {
            for &b in &pool {
                if a <= b {
                    for v in [a, b, a.saturating_add(1).min(b), b.saturating_sub(1).max(a), a / 2 + b / 2] {
                        cwn_case(rep, a, b, v);
                    }
                }
            }
        }
        cwn_case(rep, i64::MIN, i64::MAX, 0);
        cwn_case(rep, i64::MIN, 0, -5);
        cwn_case(rep, -1, i64::MAX, 7);
        cwn_case(rep, 0, i64::MAX, i64::MAX);
        cwn_case(rep, i64::MIN, -1, i64::MIN);
    }
    // 2. non-negative binary integer
    if mine(2) {
        for lb in [None, Some(0u64), Some(1), Some(7), Some(40)] {
            for r in (1..=rmax as u64).step_by(if tier == "quick" || miri { 3 } else { 1 }) {
                let l = lb.unwrap_or(0);
                let ub = Some(l + r - 1);
                for v in l..=l + r - 1 {
                    nnbi_case(rep, lb, ub, v);
                }
                nnbi_case(rep, lb, ub, l + r);
                if l > 0 {
                    nnbi_case(rep, lb, ub, l - 1);
                }
            }
        }
        for &p in &pool {
            if p >= 0 {
                let p = p as u64;
                nnbi_case(rep, None, None, p);
                nnbi_case(rep, Some(0), None, p);
                nnbi_case(rep, Some(5), None, p.max(5));
                nnbi_case(rep, None, Some(p), p / 2);
                nnbi_case(rep, None, Some(p), p);
                nnbi_case(rep, Some(p / 3), Some(p), p);
            }
        }
        nnbi_case(rep, None, None, u64::MAX);
        nnbi_case(rep, None, None, i64::MAX as u64 + 1);
        nnbi_case(rep, Some(0), None, u64::MAX);
        nnbi_case(rep, None, Some(u64::MAX), u64::MAX);
        nnbi_case(rep, Some(0), Some(u64::MAX), 12345);
        nnbi_case(rep, Some(10), Some(5), 7);
    }
    // 3. length determinants
    if mine(3) {
        for &(lb, ub) in BOUND_TABLE {
            let mut lens: Vec<u64> = if miri { (0..=300).step_by(13).chain([127, 128, 129]).collect() } else { (0..=300).collect() };
            lens.extend(large_lengths());
            if let Some(u) = ub {
                lens.extend([u.saturating_sub(1), u, u.saturating_add(1)]);
            }
            if let Some(l) = lb {
                lens.extend([l.saturating_sub(1), l, l + 1]);
            }
            for v in lens {
                length_case(rep, lb, ub, v);
            }
        }
    }
    // 4. enumeration / choice index
    let stdmax = if miri { 12 } else { 300 };
    for std in 0..=stdmax {
        if !mine(4 + std) {
            continue;
        }
        for ext in [false, true] {
            for idx in (0..=std + 130).step_by(if miri { 7 } else { 1 }) {
                index_case(rep, false, std, ext, idx);
                if std % 7 == 0 || std < 20 {
                    index_case(rep, true, std, ext, idx);
                }
            }
            index_case(rep, false, std, ext, u64::MAX);
            index_case(rep, true, std, ext, std + 70000);
        }
    }
    // 5. normally small numbers
    if mine(5) {
        for v in 0..=(if miri { 300 } else { 20_000 }) {
            nsnn_case(rep, v, false);
            if v < 64 {
                nsnn_case(rep, v, true);
            }
        }
        for &p in &pool {
            if p >= 0 {
                nsnn_case(rep, p as u64, false);
            }
        }
    }
    // 6. semi-constrained, unconstrained, 2s complement
    if mine(6) {
        for &a in &pool {
            unc_case(rep, a);
            for &b in &pool {
                semi_case(rep, a, b);
            }
            for bl in [0u64, 1, 2, 7, 8, 9, 15, 16, 17, 31, 32, 33, 63, 64, 65, 128, u64::MAX] {
                twos_case(rep, bl, a);
            }
        }
        for v in -70000i64..=70000 {
            if !miri || v.abs() < 300 {
                unc_case(rep, v);
            }
        }
        for v in 0..=(if miri { 300 } else { 70000i64 }) {
            semi_case(rep, 0, v);
            semi_case(rep, -7, v - 7);
        }
        for bl in 1..=64u64 {
            for v in [0i64, 1, -1, (1i64 << (bl.min(63) - 1).min(62)) - 1, -(1i64 << (bl.min(63) - 1).min(62)), i64::MAX, i64::MIN] {
                twos_case(rep, bl, v);
            }
        }
    }
    // 7. octet strings and bit strings: reads allocate from decoded lengths, so these cases run sandboxed
    let data: Vec<u8> = rng.bytes(200_000 / 8 + 64);
    let big: Vec<u8> = (0..200_000usize).map(|i| (i * 7 + i / 251) as u8).collect();
    #[derive(Clone, Copy)]
    enum StrCase {
        Octet(Option<u64>, Option<u64>, bool, u64),
        Bits(Option<u64>, Option<u64>, bool, u64, u64),
        BitsShort(Option<u64>, Option<u64>, bool, u64, u64),
    }
    let mut cases: Vec<StrCase> = Vec::new();
    for (ti, &(lb, ub)) in BOUND_TABLE.iter().enumerate() {
        if !mine(7 + ti as u64) {
            continue;
        }
        for ext in [false, true] {
            let mut lens: Vec<u64> = (0..=strmax).collect();
            if !miri {
                lens.extend(large_lengths());
            }
            if let Some(u) = ub {
                lens.extend([u.saturating_sub(1), u, u.saturating_add(1)]);
            }
            if let Some(l) = lb {
                lens.extend([l.saturating_sub(1), l, l + 1]);
            }
            lens.retain(|n| *n <= 200_000 && (!miri || *n <= 40));
            lens.sort();
            lens.dedup();
            for n in lens {
                // every length <= 300; large ones only for a subset of the table (cost)
                if n <= 300 || ti % 3 == 0 || ub.map(|u| u >= 65535).unwrap_or(true) {
                    cases.push(StrCase::Octet(lb, ub, ext, n));
                }
                let offs: &[u64] = if n <= 40 { &[0, 1, 2, 3, 4, 5, 6, 7] } else if n <= 300 { &[0, 3] } else { &[0, 5] };
                for &off in offs {
                    if n <= 300 || ti % 3 == 0 || ub.map(|u| u >= 65535).unwrap_or(true) {
                        cases.push(StrCase::Bits(lb, ub, ext, off, n));
                    }
                }
            }
            // beyond the source
            cases.push(StrCase::BitsShort(lb, ub, ext, 9, 8));
            cases.push(StrCase::BitsShort(lb, ub, ext, 17, 1));
            cases.push(StrCase::BitsShort(lb, ub, ext, 0, 17));
        }
    }
    let run_one = |rep: &mut Report, i: u64| match cases[i as usize] {
        StrCase::Octet(lb, ub, ext, n) => octet_case(rep, lb, ub, ext, &big[..n as usize]),
        StrCase::Bits(lb, ub, ext, off, n) => bitstring_case(rep, lb, ub, ext, &data, off, n),
        StrCase::BitsShort(lb, ub, ext, off, n) => bitstring_case(rep, lb, ub, ext, &data[..2], off, n),
    };
    let describe = |i: u64| match cases[i as usize] {
        StrCase::Octet(lb, ub, ext, n) => (
            format!("c10:octetstring:{}:{}", bounds_class(lb, ub, ext), len_class(n)),
            json!({"prim": "octetstring", "lb": lb, "ub": ub, "ext": ext, "len": n}),
        ),
        StrCase::Bits(lb, ub, ext, off, n) | StrCase::BitsShort(lb, ub, ext, off, n) => (
            format!("c10:bitstring:{}:{}", bounds_class(lb, ub, ext), len_class(n)),
            json!({"prim": "bitstring", "lb": lb, "ub": ub, "ext": ext, "offset": off, "len": n}),
        ),
    };
    if miri {
        for i in 0..cases.len() as u64 {
            run_one(rep, i);
        }
    } else {
        let cfg = monitors::sandbox::SandboxCfg { batch: 4000, ..Default::default() };
        monitors::sandbox::run_batches(rep, cases.len() as u64, &cfg, run_one, describe);
    }
    rep.exhaustive = true;
    for prim in [
        "constrained_whole_number",
        "non_negative_binary_integer",
        "length_determinant",
        "enumeration_index",
        "choice_index",
        "normally_small_non_negative_whole_number",
        "semi_constrained_whole_number",
        "unconstrained_whole_number",
        "2s_compliment_binary_integer",
        "octetstring",
        "bitstring",
    ] {
        let n: u64 = rep
            .hist
            .get("classes")
            .map(|c| c.iter().filter(|(k, _)| k.starts_with(prim)).map(|(_, v)| *v).sum())
            .unwrap_or(0);
        rep.floor.insert(format!("prim:{}", prim), n);
    }
}
