//! primmon: primitive monitors (C10, C11, C20 and the primitive part of C04).
mod c10;
mod c11;
mod c20;

use monitors::report::{Args, Report};

fn main() {
    let args = Args::parse();
    let property = args.str("property", "C11");
    let tier = args.str("tier", "quick");
    let seed = args.u64("seed", 1);
    let shard = args.u64("shard", 0);
    let nshards = args.u64("nshards", 1).max(1);
    let out = args.str("out", "/dev/stdout");
    let variant = args.str("variant", if cfg!(debug_assertions) { "checked" } else { "wrapping" });
    let miri = args.flag("miri") || cfg!(miri);
    monitors::journal::install();
    let mut rep = Report::new(&property, &tier, seed, shard, &variant);
    match property.as_str() {
        "C10" => c10::run(&mut rep, &tier, seed, shard, nshards, miri),
        "C11" => c11::run(&mut rep, &tier, seed, shard, nshards, miri),
        "C20" => c20::run(&mut rep, &tier, seed, shard, nshards, miri),
        other => {
            eprintln!("unknown property {}", other);
            std::process::exit(2);
        }
    }
    rep.write(&out);
}
