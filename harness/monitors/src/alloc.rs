//! Counting allocator: thread-local counters armed around each decode.
use std::alloc::{GlobalAlloc, Layout, System};
use std::cell::Cell;

pub struct CountingAlloc;

/// requests above this are refused (-> allocation failure abort, handled by the subprocess protocol)
pub const REFUSE_ABOVE: usize = 4 << 30;

thread_local! {
    static ARMED: Cell<bool> = const { Cell::new(false) };
    static MAX_REQ: Cell<usize> = const { Cell::new(0) };
    static LIVE: Cell<isize> = const { Cell::new(0) };
    static PEAK: Cell<isize> = const { Cell::new(0) };
    static COUNT: Cell<u64> = const { Cell::new(0) };
}

#[derive(Clone, Copy, Debug, Default)]
pub struct AllocStats {
    pub max_request: usize,
    pub peak_live: usize,
    /// bytes still live when the window closed (caches that outlive the call, e.g. the backtrace symboliser's)
    pub live_at_end: usize,
    pub requests: u64,
}

pub fn arm() {
    MAX_REQ.with(|c| c.set(0));
    LIVE.with(|c| c.set(0));
    PEAK.with(|c| c.set(0));
    COUNT.with(|c| c.set(0));
    ARMED.with(|c| c.set(true));
}

pub fn disarm() -> AllocStats {
    ARMED.with(|c| c.set(false));
    AllocStats {
        max_request: MAX_REQ.with(|c| c.get()),
        peak_live: PEAK.with(|c| c.get()).max(0) as usize,
        live_at_end: LIVE.with(|c| c.get()).max(0) as usize,
        requests: COUNT.with(|c| c.get()),
    }
}

#[inline]
fn note_alloc(size: usize) {
    if ARMED.try_with(|c| c.get()).unwrap_or(false) {
        MAX_REQ.with(|c| {
            if size > c.get() {
                c.set(size)
            }
        });
        COUNT.with(|c| c.set(c.get() + 1));
        let live = LIVE.with(|c| {
            c.set(c.get() + size as isize);
            c.get()
        });
        PEAK.with(|c| {
            if live > c.get() {
                c.set(live)
            }
        });
    }
}

#[inline]
fn note_free(size: usize) {
    if ARMED.try_with(|c| c.get()).unwrap_or(false) {
        LIVE.with(|c| c.set(c.get() - size as isize));
    }
}

unsafe impl GlobalAlloc for CountingAlloc {
    unsafe fn alloc(&self, layout: Layout) -> *mut u8 {
        if layout.size() > REFUSE_ABOVE {
            return std::ptr::null_mut();
        }
        note_alloc(layout.size());
        System.alloc(layout)
    }
    unsafe fn dealloc(&self, ptr: *mut u8, layout: Layout) {
        note_free(layout.size());
        System.dealloc(ptr, layout)
    }
    unsafe fn alloc_zeroed(&self, layout: Layout) -> *mut u8 {
        if layout.size() > REFUSE_ABOVE {
            return std::ptr::null_mut();
        }
        note_alloc(layout.size());
        System.alloc_zeroed(layout)
    }
    unsafe fn realloc(&self, ptr: *mut u8, layout: Layout, new_size: usize) -> *mut u8 {
        if new_size > REFUSE_ABOVE {
            return std::ptr::null_mut();
        }
        note_free(layout.size());
        note_alloc(new_size);
        System.realloc(ptr, layout, new_size)
    }
}

impl AllocStats {
    /// peak of the memory that was given back before the window closed: a lower bound of what the call itself
    /// needed at its worst moment, never counting process-wide caches filled during the call
    pub fn transient_peak(&self) -> usize {
        self.peak_live.saturating_sub(self.live_at_end)
    }
}
