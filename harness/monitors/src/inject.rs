//! Injector (`impl Reader`): builds a value of any generated type from an abstract (Type, Val),
//! schema-directed, checking on every call that the kind of call matches the abstract type.
//! Extractor (`impl Writer`): the inverse, additionally recording the compiled descriptor constants
//! (ShapeWriter of DESIGN.md 3.2).
use asn1rs::descriptor::*;
use asn1rs::prelude::Null;
use std::collections::VecDeque;
use vgen::per::lit_to_val;
use vgen::resolve::*;
use vgen::schema::*;
use vgen::value::Val;

/// Order in which generated code visits SET components.
#[derive(Clone, Copy, Debug, PartialEq, Eq)]
pub enum SetOrder {
    /// X.691 21: root in canonical tag order, additions in definition order
    RootSorted,
    /// root sorted, additions sorted by tag as well (what asn1rs does; known finding)
    AllSorted,
}

#[derive(Clone, Debug)]
pub struct Slot {
    pub mi: usize,
    pub ty: Type,
    pub val: Option<Val>,
    pub presence: Option<Presence>,
    pub is_addition: bool,
    /// destination for the Extractor: Some(i) = textual index in the top frame, None = register
    pub dest: Option<usize>,
}

pub fn visit_order(u: &Universe, mi: usize, c: &Comps, is_set: bool, order: SetOrder) -> Vec<usize> {
    let nroot = c.root.len();
    let mut v: Vec<usize> = if is_set { set_root_order(u, mi, c) } else { (0..nroot).collect() };
    let mut adds: Vec<usize> = (nroot..c.len()).collect();
    if is_set && order == SetOrder::AllSorted {
        let tags = comp_tags(u, mi, c);
        adds.sort_by_key(|i| tags[*i]);
    }
    v.extend(adds);
    v
}

fn comp_at(c: &Comps, i: usize) -> &Comp {
    if i < c.root.len() {
        &c.root[i]
    } else {
        &c.ext.as_ref().unwrap()[i - c.root.len()]
    }
}

fn default_of(u: &Universe, mi: usize, comp: &Comp) -> Option<Val> {
    match &comp.presence {
        Presence::Default(DefaultVal::Lit(l)) => lit_to_val(u, mi, &comp.ty, l).ok(),
        _ => None,
    }
}

/// resolve a slot type through references until a constructed type with own Rust definition or a wrapper is found
enum Resolved {
    /// the type is a struct/enum of its own: (mi, body)
    Own(usize, Type),
    /// a named non-constructed definition: tuple struct wrapper around (mi, body)
    Wrapper(usize, Type, String),
    /// not a reference and not constructed
    Plain,
}

fn resolve_named(u: &Universe, mi: usize, ty: &Type) -> Result<Resolved, String> {
    match ty {
        Type::Ref(name) => {
            let (dmi, d) = u.lookup_def(mi, name).ok_or_else(|| format!("unresolved type {}", name))?;
            if d.ty.is_constructed_named() {
                Ok(Resolved::Own(dmi, d.ty.clone()))
            } else {
                Ok(Resolved::Wrapper(dmi, d.ty.clone(), name.clone()))
            }
        }
        t if t.is_constructed_named() => Ok(Resolved::Own(mi, t.clone())),
        _ => Ok(Resolved::Plain),
    }
}

// =============================================================================================
// Injector

pub struct Injector<'a> {
    pub u: &'a Universe,
    pub set_order: SetOrder,
    pending: Option<Slot>,
    frames: Vec<VecDeque<Slot>>,
    /// names (C::NAME) seen, for diagnostics
    pub names: Vec<&'static str>,
}

pub type InjErr = String;

impl<'a> Injector<'a> {
    pub fn new(u: &'a Universe, set_order: SetOrder) -> Self {
        Injector { u, set_order, pending: None, frames: Vec::new(), names: Vec::new() }
    }

    pub fn inject<T: Readable>(u: &'a Universe, set_order: SetOrder, mi: usize, def: &str, val: &Val) -> Result<T, InjErr> {
        let mut inj = Injector::new(u, set_order);
        inj.pending = Some(Slot {
            mi,
            ty: Type::Ref(def.to_string()),
            val: Some(val.clone()),
            presence: None,
            is_addition: false,
            dest: None,
        });
        let v = T::read(&mut inj)?;
        if inj.pending.is_some() || !inj.frames.is_empty() {
            return Err("injector: value not consumed by generated code".into());
        }
        Ok(v)
    }

    fn next_slot(&mut self, call: &str) -> Result<Slot, InjErr> {
        if let Some(s) = self.pending.take() {
            return Ok(s);
        }
        match self.frames.last_mut() {
            Some(f) => f.pop_front().ok_or_else(|| {
                format!("generated code visits more fields than the schema has (at {})", call)
            }),
            None => Err(format!("injector: no slot for {}", call)),
        }
    }

    fn mismatch<T>(&self, call: &str, slot: &Slot) -> Result<T, InjErr> {
        Err(format!(
            "generated code visits a different structure than the schema: call {} but schema has {} (value {})",
            call,
            slot.ty.kind_name(),
            slot.val.as_ref().map(|v| v.kind()).unwrap_or("absent")
        ))
    }

    fn struct_like<S, F: Fn(&mut Self) -> Result<S, InjErr>>(
        &mut self,
        call: &str,
        is_set_call: bool,
        f: F,
    ) -> Result<S, InjErr> {
        let slot = self.next_slot(call)?;
        match resolve_named(self.u, slot.mi, &slot.ty)? {
            Resolved::Wrapper(dmi, body, _name) => {
                if is_set_call {
                    return self.mismatch(call, &slot);
                }
                self.pending = Some(Slot { mi: dmi, ty: body, dest: None, ..slot });
                let r = f(self)?;
                if self.pending.is_some() {
                    return Err("wrapper did not read its content".into());
                }
                Ok(r)
            }
            Resolved::Own(dmi, body) => {
                let (c, is_set) = match &body {
                    Type::Sequence(c) => (c, false),
                    Type::Set(c) => (c, true),
                    _ => return self.mismatch(call, &slot),
                };
                if is_set != is_set_call {
                    return self.mismatch(call, &slot);
                }
                let vals = match slot.val {
                    Some(Val::Seq(v)) if v.len() == c.len() => v,
                    _ => return Err(format!("injector: value does not fit {}", body.kind_name())),
                };
                let mut vals: Vec<Option<Option<Val>>> = vals.into_iter().map(Some).collect();
                let order = visit_order(self.u, dmi, c, is_set, self.set_order);
                let mut q = VecDeque::new();
                for i in order {
                    let comp = comp_at(c, i);
                    q.push_back(Slot {
                        mi: dmi,
                        ty: comp.ty.clone(),
                        val: vals[i].take().unwrap(),
                        presence: Some(comp.presence.clone()),
                        is_addition: i >= c.root.len(),
                        dest: Some(i),
                    });
                }
                self.frames.push(q);
                let r = f(self);
                let frame = self.frames.pop().unwrap();
                let r = r?;
                if !frame.is_empty() {
                    return Err(format!(
                        "generated code visits fewer fields than the schema has ({} left)",
                        frame.len()
                    ));
                }
                Ok(r)
            }
            Resolved::Plain => self.mismatch(call, &slot),
        }
    }

    /// a field-level slot for a non-optional read; checks presence kind
    fn value_slot(&mut self, call: &str) -> Result<(Slot, Val), InjErr> {
        let mut slot = self.next_slot(call)?;
        if let Some(p) = &slot.presence {
            let optional_in_rust =
                matches!(p, Presence::Optional) || (slot.is_addition && matches!(p, Presence::Mandatory));
            if optional_in_rust || matches!(p, Presence::Default(_)) {
                return Err(format!(
                    "generated code reads a plain value where the schema has an OPTIONAL/DEFAULT component ({})",
                    call
                ));
            }
        }
        match slot.val.take() {
            Some(v) => Ok((slot, v)),
            None => Err(format!("injector: absent value for mandatory read {}", call)),
        }
    }

    fn list<T: ReadableType>(&mut self, call: &str, want_set_of: bool) -> Result<Vec<T::Type>, InjErr> {
        let (slot, v) = self.value_slot(call)?;
        let elem = match (&slot.ty, want_set_of) {
            (Type::SequenceOf { elem, .. }, false) | (Type::SetOf { elem, .. }, true) => (**elem).clone(),
            _ => return self.mismatch(call, &slot),
        };
        let items = match v {
            Val::List(l) => l,
            _ => return self.mismatch(call, &slot),
        };
        let mut out = Vec::with_capacity(items.len());
        for it in items {
            self.pending = Some(Slot {
                mi: slot.mi,
                ty: elem.clone(),
                val: Some(it),
                presence: None,
                is_addition: false,
                dest: None,
            });
            out.push(T::read_value(self)?);
        }
        Ok(out)
    }

    fn string(&mut self, call: &str, cs: Charset) -> Result<String, InjErr> {
        let (slot, v) = self.value_slot(call)?;
        match (&slot.ty, v) {
            (Type::CharString { cs: c, .. }, Val::Str(s)) if *c == cs => Ok(s),
            _ => self.mismatch(call, &slot),
        }
    }
}

impl<'a> Reader for Injector<'a> {
    type Error = InjErr;

    fn read_sequence<C: sequence::Constraint, S: Sized, F: Fn(&mut Self) -> Result<S, Self::Error>>(
        &mut self,
        f: F,
    ) -> Result<S, Self::Error> {
        self.names.push(C::NAME);
        self.struct_like("read_sequence", false, f)
    }

    fn read_sequence_of<C: sequenceof::Constraint, T: ReadableType>(&mut self) -> Result<Vec<T::Type>, Self::Error> {
        self.list::<T>("read_sequence_of", false)
    }

    fn read_set<C: set::Constraint, S: Sized, F: Fn(&mut Self) -> Result<S, Self::Error>>(
        &mut self,
        f: F,
    ) -> Result<S, Self::Error> {
        self.names.push(C::NAME);
        self.struct_like("read_set", true, f)
    }

    fn read_set_of<C: setof::Constraint, T: ReadableType>(&mut self) -> Result<Vec<T::Type>, Self::Error> {
        self.list::<T>("read_set_of", true)
    }

    fn read_enumerated<C: enumerated::Constraint>(&mut self) -> Result<C, Self::Error> {
        let (slot, v) = self.value_slot("read_enumerated")?;
        let body = match resolve_named(self.u, slot.mi, &slot.ty)? {
            Resolved::Own(_, b) => b,
            _ => return self.mismatch("read_enumerated", &slot),
        };
        match (&body, v) {
            (Type::Enumerated { .. }, Val::Enum(i)) => C::from_choice_index(i as u64)
                .ok_or_else(|| format!("generated enum {} has no variant with index {}", C::NAME, i)),
            _ => self.mismatch("read_enumerated", &slot),
        }
    }

    fn read_choice<C: choice::Constraint>(&mut self) -> Result<C, Self::Error> {
        let (slot, v) = self.value_slot("read_choice")?;
        let (dmi, body) = match resolve_named(self.u, slot.mi, &slot.ty)? {
            Resolved::Own(m, b) => (m, b),
            _ => return self.mismatch("read_choice", &slot),
        };
        match (&body, v) {
            (Type::Choice { root, ext }, Val::Choice(i, inner)) => {
                let alt = root
                    .iter()
                    .chain(ext.iter().flatten())
                    .nth(i)
                    .ok_or("injector: choice index out of range")?;
                self.pending = Some(Slot {
                    mi: dmi,
                    ty: alt.ty.clone(),
                    val: Some(*inner),
                    presence: None,
                    is_addition: false,
                    dest: None,
                });
                let r = C::read_content(i as u64, self)?;
                if self.pending.is_some() {
                    return Err(format!("generated choice {} did not read the content of alternative {}", C::NAME, i));
                }
                r.ok_or_else(|| format!("generated choice {} has no alternative with index {}", C::NAME, i))
            }
            _ => self.mismatch("read_choice", &slot),
        }
    }

    fn read_opt<T: ReadableType>(&mut self) -> Result<Option<T::Type>, Self::Error> {
        let slot = self.next_slot("read_opt")?;
        match &slot.presence {
            Some(Presence::Optional) => {}
            Some(Presence::Mandatory) if slot.is_addition => {}
            _ => {
                return Err(format!(
                    "generated code reads an Option where the schema has {:?} (addition: {})",
                    slot.presence, slot.is_addition
                ))
            }
        }
        if slot.val.is_none() {
            return Ok(None);
        }
        self.pending = Some(Slot { presence: None, is_addition: false, dest: None, ..slot });
        T::read_value(self).map(Some)
    }

    fn read_default<C: default::Constraint<Owned = T::Type>, T: ReadableType>(&mut self) -> Result<T::Type, Self::Error> {
        let slot = self.next_slot("read_default")?;
        let def = match &slot.presence {
            Some(Presence::Default(DefaultVal::Lit(l))) => lit_to_val(self.u, slot.mi, &slot.ty, l)?,
            _ => {
                return Err(format!(
                    "generated code reads a DEFAULT where the schema has {:?}",
                    slot.presence
                ))
            }
        };
        match &slot.val {
            None => Ok(C::DEFAULT_VALUE.to_owned()),
            Some(v) if *v == def => Ok(C::DEFAULT_VALUE.to_owned()),
            Some(_) => {
                self.pending = Some(Slot { presence: None, is_addition: false, dest: None, ..slot });
                T::read_value(self)
            }
        }
    }

    fn read_number<T: numbers::Number, C: numbers::Constraint<T>>(&mut self) -> Result<T, Self::Error> {
        let (slot, v) = self.value_slot("read_number")?;
        match (&slot.ty, v) {
            (Type::Integer { .. }, Val::Int(i)) => Ok(T::from_i64(i as i64)),
            _ => self.mismatch("read_number", &slot),
        }
    }

    fn read_utf8string<C: utf8string::Constraint>(&mut self) -> Result<String, Self::Error> {
        self.string("read_utf8string", Charset::Utf8)
    }
    fn read_ia5string<C: ia5string::Constraint>(&mut self) -> Result<String, Self::Error> {
        self.string("read_ia5string", Charset::Ia5)
    }
    fn read_numeric_string<C: numericstring::Constraint>(&mut self) -> Result<String, Self::Error> {
        self.string("read_numeric_string", Charset::Numeric)
    }
    fn read_visible_string<C: visiblestring::Constraint>(&mut self) -> Result<String, Self::Error> {
        self.string("read_visible_string", Charset::Visible)
    }
    fn read_printable_string<C: printablestring::Constraint>(&mut self) -> Result<String, Self::Error> {
        self.string("read_printable_string", Charset::Printable)
    }

    fn read_octet_string<C: octetstring::Constraint>(&mut self) -> Result<Vec<u8>, Self::Error> {
        let (slot, v) = self.value_slot("read_octet_string")?;
        match (&slot.ty, v) {
            (Type::OctetString { .. }, Val::Bytes(b)) => Ok(b),
            _ => self.mismatch("read_octet_string", &slot),
        }
    }

    fn read_bit_string<C: bitstring::Constraint>(&mut self) -> Result<(Vec<u8>, u64), Self::Error> {
        let (slot, v) = self.value_slot("read_bit_string")?;
        match (&slot.ty, v) {
            (Type::BitString { .. }, Val::Bits(b)) => Ok((vgen::bits::bools_to_bytes(&b), b.len() as u64)),
            _ => self.mismatch("read_bit_string", &slot),
        }
    }

    fn read_boolean<C: boolean::Constraint>(&mut self) -> Result<bool, Self::Error> {
        let (slot, v) = self.value_slot("read_boolean")?;
        match (&slot.ty, v) {
            (Type::Boolean, Val::Bool(b)) => Ok(b),
            _ => self.mismatch("read_boolean", &slot),
        }
    }

    fn read_null<C: null::Constraint>(&mut self) -> Result<Null, Self::Error> {
        let (slot, v) = self.value_slot("read_null")?;
        match (&slot.ty, v) {
            (Type::Null, Val::Null) => Ok(Null),
            _ => self.mismatch("read_null", &slot),
        }
    }
}

// =============================================================================================
// Extractor / ShapeWriter

#[derive(Clone, Debug, PartialEq, Eq, Hash)]
pub struct ShapeEv {
    pub kind: &'static str,
    pub name: String,
    pub tag: String,
    pub min: Option<i128>,
    pub max: Option<i128>,
    pub extensible: bool,
    /// sequence: STD_OPTIONAL_FIELDS, FIELD_COUNT, EXTENDED_AFTER_FIELD; choice/enum: STD_VARIANT_COUNT, VARIANT_COUNT
    pub a: Option<u64>,
    pub b: Option<u64>,
    pub c: Option<u64>,
    /// position of the schema component this event belongs to (textual index in its parent), if any
    pub comp: Option<usize>,
}

struct XFrame {
    slots: VecDeque<Slot>,
    results: Vec<Option<Val>>,
}

pub struct Extractor<'a> {
    pub u: &'a Universe,
    pub set_order: SetOrder,
    pending: Option<Slot>,
    frames: Vec<XFrame>,
    register: Option<Val>,
    pub record_shape: bool,
    pub shape: Vec<ShapeEv>,
}

impl<'a> Extractor<'a> {
    pub fn new(u: &'a Universe, set_order: SetOrder) -> Self {
        Extractor { u, set_order, pending: None, frames: Vec::new(), register: None, record_shape: false, shape: Vec::new() }
    }

    pub fn extract<T: Writable>(u: &'a Universe, set_order: SetOrder, mi: usize, def: &str, value: &T) -> Result<Val, InjErr> {
        let mut x = Extractor::new(u, set_order);
        x.extract_with(mi, def, value)
    }

    pub fn extract_with<T: Writable>(&mut self, mi: usize, def: &str, value: &T) -> Result<Val, InjErr> {
        self.pending = Some(Slot {
            mi,
            ty: Type::Ref(def.to_string()),
            val: None,
            presence: None,
            is_addition: false,
            dest: None,
        });
        self.frames.clear();
        self.register = None;
        value.write(self)?;
        if self.pending.is_some() || !self.frames.is_empty() {
            return Err("extractor: generated code did not write the value".into());
        }
        self.register.take().ok_or_else(|| "extractor: nothing written".to_string())
    }

    fn next_slot(&mut self, call: &str) -> Result<Slot, InjErr> {
        if let Some(s) = self.pending.take() {
            return Ok(s);
        }
        match self.frames.last_mut() {
            Some(f) => f.slots.pop_front().ok_or_else(|| {
                format!("generated code visits more fields than the schema has (at {})", call)
            }),
            None => Err(format!("extractor: no slot for {}", call)),
        }
    }

    fn finish(&mut self, slot: &Slot, v: Option<Val>) -> Result<(), InjErr> {
        match slot.dest {
            Some(i) => {
                let f = self.frames.last_mut().ok_or("extractor: no frame")?;
                f.results[i] = v;
            }
            None => self.register = v,
        }
        Ok(())
    }

    fn mismatch<T>(&self, call: &str, slot: &Slot) -> Result<T, InjErr> {
        Err(format!(
            "generated code visits a different structure than the schema: call {} but schema has {}",
            call,
            slot.ty.kind_name()
        ))
    }

    fn check_plain(&self, call: &str, slot: &Slot) -> Result<(), InjErr> {
        if let Some(p) = &slot.presence {
            let optional_in_rust =
                matches!(p, Presence::Optional) || (slot.is_addition && matches!(p, Presence::Mandatory));
            if optional_in_rust || matches!(p, Presence::Default(_)) {
                return Err(format!(
                    "generated code writes a plain value where the schema has an OPTIONAL/DEFAULT component ({})",
                    call
                ));
            }
        }
        Ok(())
    }

    fn ev(&mut self, slot: &Slot, e: ShapeEv) {
        if self.record_shape {
            let mut e = e;
            e.comp = slot.dest;
            self.shape.push(e);
        }
    }

    fn struct_like<F: Fn(&mut Self) -> Result<(), InjErr>>(
        &mut self,
        call: &str,
        is_set_call: bool,
        ev: ShapeEv,
        f: F,
    ) -> Result<(), InjErr> {
        let slot = self.next_slot(call)?;
        self.check_plain(call, &slot)?;
        self.ev(&slot, ev);
        match resolve_named(self.u, slot.mi, &slot.ty)? {
            Resolved::Wrapper(dmi, body, _) => {
                if is_set_call {
                    return self.mismatch(call, &slot);
                }
                self.pending = Some(Slot { mi: dmi, ty: body, dest: None, presence: None, is_addition: false, val: None });
                f(self)?;
                if self.pending.is_some() {
                    return Err("wrapper did not write its content".into());
                }
                let v = self.register.take();
                self.finish(&slot, v)
            }
            Resolved::Own(dmi, body) => {
                let (c, is_set) = match &body {
                    Type::Sequence(c) => (c, false),
                    Type::Set(c) => (c, true),
                    _ => return self.mismatch(call, &slot),
                };
                if is_set != is_set_call {
                    return self.mismatch(call, &slot);
                }
                let order = visit_order(self.u, dmi, c, is_set, self.set_order);
                let mut q = VecDeque::new();
                for i in order {
                    let comp = comp_at(c, i);
                    q.push_back(Slot {
                        mi: dmi,
                        ty: comp.ty.clone(),
                        val: None,
                        presence: Some(comp.presence.clone()),
                        is_addition: i >= c.root.len(),
                        dest: Some(i),
                    });
                }
                self.frames.push(XFrame { slots: q, results: vec![None; c.len()] });
                let r = f(self);
                let frame = self.frames.pop().unwrap();
                r?;
                if !frame.slots.is_empty() {
                    return Err(format!(
                        "generated code visits fewer fields than the schema has ({} left)",
                        frame.slots.len()
                    ));
                }
                self.finish(&slot, Some(Val::Seq(frame.results)))
            }
            Resolved::Plain => self.mismatch(call, &slot),
        }
    }

    fn list<T: WritableType>(&mut self, call: &str, want_set_of: bool, ev: ShapeEv, slice: &[T::Type]) -> Result<(), InjErr> {
        let slot = self.next_slot(call)?;
        self.check_plain(call, &slot)?;
        self.ev(&slot, ev);
        let elem = match (&slot.ty, want_set_of) {
            (Type::SequenceOf { elem, .. }, false) | (Type::SetOf { elem, .. }, true) => (**elem).clone(),
            _ => return self.mismatch(call, &slot),
        };
        let mut out = Vec::with_capacity(slice.len());
        let saved_shape = self.record_shape;
        for (i, it) in slice.iter().enumerate() {
            // record the element shape only once
            self.record_shape = saved_shape && i == 0;
            self.pending = Some(Slot { mi: slot.mi, ty: elem.clone(), val: None, presence: None, is_addition: false, dest: None });
            T::write_value(self, it)?;
            out.push(self.register.take().ok_or("extractor: element not written")?);
        }
        self.record_shape = saved_shape;
        self.finish(&slot, Some(Val::List(out)))
    }

    fn string(&mut self, call: &str, cs: Charset, ev: ShapeEv, value: &str) -> Result<(), InjErr> {
        let slot = self.next_slot(call)?;
        self.check_plain(call, &slot)?;
        self.ev(&slot, ev);
        match &slot.ty {
            Type::CharString { cs: c, .. } if *c == cs => self.finish(&slot, Some(Val::Str(value.to_string()))),
            _ => self.mismatch(call, &slot),
        }
    }
}

fn tag_str(t: asn1rs::model::asn::Tag) -> String {
    format!("{:?}", t)
}

fn sized_ev(kind: &'static str, tag: asn1rs::model::asn::Tag, min: Option<u64>, max: Option<u64>, ext: bool) -> ShapeEv {
    ShapeEv {
        kind,
        name: String::new(),
        tag: tag_str(tag),
        min: min.map(|v| v as i128),
        max: max.map(|v| v as i128),
        extensible: ext,
        a: None,
        b: None,
        c: None,
        comp: None,
    }
}

impl<'a> Writer for Extractor<'a> {
    type Error = InjErr;

    fn write_sequence<C: sequence::Constraint, F: Fn(&mut Self) -> Result<(), Self::Error>>(&mut self, f: F) -> Result<(), Self::Error> {
        let ev = ShapeEv {
            kind: "sequence",
            name: C::NAME.to_string(),
            tag: tag_str(C::TAG),
            min: None,
            max: None,
            extensible: C::EXTENDED_AFTER_FIELD.is_some(),
            a: Some(C::STD_OPTIONAL_FIELDS),
            b: Some(C::FIELD_COUNT),
            c: C::EXTENDED_AFTER_FIELD,
            comp: None,
        };
        self.struct_like("write_sequence", false, ev, f)
    }

    fn write_sequence_of<C: sequenceof::Constraint, T: WritableType>(&mut self, slice: &[T::Type]) -> Result<(), Self::Error> {
        let ev = sized_ev("sequence_of", C::TAG, C::MIN, C::MAX, C::EXTENSIBLE);
        self.list::<T>("write_sequence_of", false, ev, slice)
    }

    fn write_set<C: set::Constraint, F: Fn(&mut Self) -> Result<(), Self::Error>>(&mut self, f: F) -> Result<(), Self::Error> {
        let ev = ShapeEv {
            kind: "set",
            name: C::NAME.to_string(),
            tag: tag_str(C::TAG),
            min: None,
            max: None,
            extensible: C::EXTENDED_AFTER_FIELD.is_some(),
            a: Some(C::STD_OPTIONAL_FIELDS),
            b: Some(C::FIELD_COUNT),
            c: C::EXTENDED_AFTER_FIELD,
            comp: None,
        };
        self.struct_like("write_set", true, ev, f)
    }

    fn write_set_of<C: setof::Constraint, T: WritableType>(&mut self, slice: &[T::Type]) -> Result<(), Self::Error> {
        let ev = sized_ev("set_of", C::TAG, C::MIN, C::MAX, C::EXTENSIBLE);
        self.list::<T>("write_set_of", true, ev, slice)
    }

    fn write_enumerated<C: enumerated::Constraint>(&mut self, enumerated: &C) -> Result<(), Self::Error> {
        let slot = self.next_slot("write_enumerated")?;
        self.check_plain("write_enumerated", &slot)?;
        let ev = ShapeEv {
            kind: "enumerated",
            name: C::NAME.to_string(),
            tag: tag_str(C::TAG),
            min: None,
            max: None,
            extensible: C::EXTENSIBLE,
            a: Some(C::STD_VARIANT_COUNT),
            b: Some(C::VARIANT_COUNT),
            c: None,
            comp: None,
        };
        self.ev(&slot, ev);
        match resolve_named(self.u, slot.mi, &slot.ty)? {
            Resolved::Own(_, Type::Enumerated { .. }) => {
                let idx = enumerated.to_choice_index() as usize;
                self.finish(&slot, Some(Val::Enum(idx)))
            }
            _ => self.mismatch("write_enumerated", &slot),
        }
    }

    fn write_choice<C: choice::Constraint>(&mut self, choice: &C) -> Result<(), Self::Error> {
        let slot = self.next_slot("write_choice")?;
        self.check_plain("write_choice", &slot)?;
        let ev = ShapeEv {
            kind: "choice",
            name: C::NAME.to_string(),
            tag: tag_str(C::TAG),
            min: None,
            max: None,
            extensible: C::EXTENSIBLE,
            a: Some(C::STD_VARIANT_COUNT),
            b: Some(C::VARIANT_COUNT),
            c: None,
            comp: None,
        };
        self.ev(&slot, ev);
        match resolve_named(self.u, slot.mi, &slot.ty)? {
            Resolved::Own(dmi, Type::Choice { root, ext }) => {
                let idx = choice.to_choice_index() as usize;
                let alt = root
                    .iter()
                    .chain(ext.iter().flatten())
                    .nth(idx)
                    .ok_or_else(|| format!("generated choice {} reports index {} beyond the schema", C::NAME, idx))?;
                self.pending = Some(Slot { mi: dmi, ty: alt.ty.clone(), val: None, presence: None, is_addition: false, dest: None });
                choice.write_content(self)?;
                let inner = self.register.take().ok_or("extractor: choice content not written")?;
                self.finish(&slot, Some(Val::Choice(idx, Box::new(inner))))
            }
            _ => self.mismatch("write_choice", &slot),
        }
    }

    fn write_opt<T: WritableType>(&mut self, value: Option<&T::Type>) -> Result<(), Self::Error> {
        let slot = self.next_slot("write_opt")?;
        match &slot.presence {
            Some(Presence::Optional) => {}
            Some(Presence::Mandatory) if slot.is_addition => {}
            _ => {
                return Err(format!(
                    "generated code writes an Option where the schema has {:?} (addition: {})",
                    slot.presence, slot.is_addition
                ))
            }
        }
        match value {
            None => self.finish(&slot, None),
            Some(v) => {
                self.pending = Some(Slot { presence: None, is_addition: false, dest: None, val: None, mi: slot.mi, ty: slot.ty.clone() });
                // keep the component index for the shape events of the inner call
                let shape_from = self.shape.len();
                T::write_value(self, v)?;
                if self.record_shape {
                    for e in &mut self.shape[shape_from..] {
                        if e.comp.is_none() {
                            e.comp = slot.dest;
                        }
                    }
                }
                let r = self.register.take();
                self.finish(&slot, r)
            }
        }
    }

    fn write_default<C: default::Constraint<Owned = T::Type>, T: WritableType>(&mut self, value: &T::Type) -> Result<(), Self::Error> {
        let slot = self.next_slot("write_default")?;
        if !matches!(&slot.presence, Some(Presence::Default(_))) {
            return Err(format!(
                "generated code writes a DEFAULT where the schema has {:?}",
                slot.presence
            ));
        }
        self.pending = Some(Slot { presence: None, is_addition: false, dest: None, val: None, mi: slot.mi, ty: slot.ty.clone() });
        let shape_from = self.shape.len();
        T::write_value(self, value)?;
        if self.record_shape {
            for e in &mut self.shape[shape_from..] {
                if e.comp.is_none() {
                    e.comp = slot.dest;
                }
            }
        }
        let r = self.register.take();
        self.finish(&slot, r)
    }

    fn write_number<T: numbers::Number, C: numbers::Constraint<T>>(&mut self, value: T) -> Result<(), Self::Error> {
        let slot = self.next_slot("write_number")?;
        self.check_plain("write_number", &slot)?;
        let ev = ShapeEv {
            kind: "number",
            name: std::any::type_name::<T>().to_string(),
            tag: tag_str(C::TAG),
            min: C::MIN.map(|v| v as i128),
            max: C::MAX.map(|v| v as i128),
            extensible: C::EXTENSIBLE,
            a: None,
            b: None,
            c: None,
            comp: None,
        };
        self.ev(&slot, ev);
        match &slot.ty {
            Type::Integer { .. } => {
                let raw = value.to_i64();
                // unsigned 64-bit values above i64::MAX arrive as negative i64
                let v = if std::any::type_name::<T>() == "u64" { raw as u64 as i128 } else { raw as i128 };
                self.finish(&slot, Some(Val::Int(v)))
            }
            _ => self.mismatch("write_number", &slot),
        }
    }

    fn write_utf8string<C: utf8string::Constraint>(&mut self, value: &str) -> Result<(), Self::Error> {
        self.string("write_utf8string", Charset::Utf8, sized_ev("utf8string", C::TAG, C::MIN, C::MAX, C::EXTENSIBLE), value)
    }
    fn write_ia5string<C: ia5string::Constraint>(&mut self, value: &str) -> Result<(), Self::Error> {
        self.string("write_ia5string", Charset::Ia5, sized_ev("ia5string", C::TAG, C::MIN, C::MAX, C::EXTENSIBLE), value)
    }
    fn write_numeric_string<C: numericstring::Constraint>(&mut self, value: &str) -> Result<(), Self::Error> {
        self.string("write_numeric_string", Charset::Numeric, sized_ev("numericstring", C::TAG, C::MIN, C::MAX, C::EXTENSIBLE), value)
    }
    fn write_visible_string<C: visiblestring::Constraint>(&mut self, value: &str) -> Result<(), Self::Error> {
        self.string("write_visible_string", Charset::Visible, sized_ev("visiblestring", C::TAG, C::MIN, C::MAX, C::EXTENSIBLE), value)
    }
    fn write_printable_string<C: printablestring::Constraint>(&mut self, value: &str) -> Result<(), Self::Error> {
        self.string("write_printable_string", Charset::Printable, sized_ev("printablestring", C::TAG, C::MIN, C::MAX, C::EXTENSIBLE), value)
    }

    fn write_octet_string<C: octetstring::Constraint>(&mut self, value: &[u8]) -> Result<(), Self::Error> {
        let slot = self.next_slot("write_octet_string")?;
        self.check_plain("write_octet_string", &slot)?;
        self.ev(&slot, sized_ev("octetstring", C::TAG, C::MIN, C::MAX, C::EXTENSIBLE));
        match &slot.ty {
            Type::OctetString { .. } => self.finish(&slot, Some(Val::Bytes(value.to_vec()))),
            _ => self.mismatch("write_octet_string", &slot),
        }
    }

    fn write_bit_string<C: bitstring::Constraint>(&mut self, value: &[u8], bit_len: u64) -> Result<(), Self::Error> {
        let slot = self.next_slot("write_bit_string")?;
        self.check_plain("write_bit_string", &slot)?;
        self.ev(&slot, sized_ev("bitstring", C::TAG, C::MIN, C::MAX, C::EXTENSIBLE));
        match &slot.ty {
            Type::BitString { .. } => {
                self.finish(&slot, Some(Val::Bits(vgen::bits::bytes_to_bools(value, bit_len as usize))))
            }
            _ => self.mismatch("write_bit_string", &slot),
        }
    }

    fn write_boolean<C: boolean::Constraint>(&mut self, value: bool) -> Result<(), Self::Error> {
        let slot = self.next_slot("write_boolean")?;
        self.check_plain("write_boolean", &slot)?;
        self.ev(&slot, sized_ev("boolean", C::TAG, None, None, false));
        match &slot.ty {
            Type::Boolean => self.finish(&slot, Some(Val::Bool(value))),
            _ => self.mismatch("write_boolean", &slot),
        }
    }

    fn write_null<C: null::Constraint>(&mut self, _value: &Null) -> Result<(), Self::Error> {
        let slot = self.next_slot("write_null")?;
        self.check_plain("write_null", &slot)?;
        self.ev(&slot, sized_ev("null", C::TAG, None, None, false));
        match &slot.ty {
            Type::Null => self.finish(&slot, Some(Val::Null)),
            _ => self.mismatch("write_null", &slot),
        }
    }
}
