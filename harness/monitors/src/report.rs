//! Worker report: what one shard of one check observed. Merged by tools/check.py.
use serde::{Deserialize, Serialize};
use serde_json::Value;
use std::collections::{BTreeMap, BTreeSet};

#[derive(Serialize, Deserialize, Default)]
pub struct Report {
    pub property: String,
    pub tier: String,
    pub seed: u64,
    pub shard: u64,
    pub variant: String,
    pub evaluations: u64,
    /// hashes of distinct non-trivial cases (capped; beyond the cap nothing is added = undercount)
    pub distinct: BTreeSet<u64>,
    pub rule: String,
    pub samples: Vec<Value>,
    /// signature -> (count, first witnesses)
    pub violations: BTreeMap<String, Finding>,
    pub hist: BTreeMap<String, BTreeMap<String, u64>>,
    pub inconclusive: Vec<String>,
    /// coverage-floor cells that must be non-zero for a "held" verdict: name -> count
    pub floor: BTreeMap<String, u64>,
    pub exhaustive: bool,
    pub notes: Vec<String>,
}

#[derive(Serialize, Deserialize, Default)]
pub struct Finding {
    pub count: u64,
    pub witnesses: Vec<Value>,
    /// deviation/known-finding class this signature belongs to, if the monitor could tell
    pub class: Option<String>,
}

pub const DISTINCT_CAP: usize = 200_000;
pub const WITNESS_CAP: usize = 3;
pub const SAMPLE_CAP: usize = 8;

impl Report {
    pub fn new(property: &str, tier: &str, seed: u64, shard: u64, variant: &str) -> Self {
        Report {
            property: property.to_string(),
            tier: tier.to_string(),
            seed,
            shard,
            variant: variant.to_string(),
            ..Default::default()
        }
    }

    pub fn eval(&mut self) {
        self.evaluations += 1;
    }

    pub fn distinct(&mut self, h: u64) {
        if self.distinct.len() < DISTINCT_CAP {
            self.distinct.insert(h);
        }
    }

    pub fn hist(&mut self, table: &str, key: &str) {
        *self.hist.entry(table.to_string()).or_default().entry(key.to_string()).or_insert(0) += 1;
    }

    pub fn hist_add(&mut self, table: &str, key: &str, n: u64) {
        *self.hist.entry(table.to_string()).or_default().entry(key.to_string()).or_insert(0) += n;
    }

    pub fn floor(&mut self, cell: &str) {
        *self.floor.entry(cell.to_string()).or_insert(0) += 1;
    }

    pub fn floor_declare(&mut self, cell: &str) {
        self.floor.entry(cell.to_string()).or_insert(0);
    }

    pub fn sample(&mut self, v: Value) {
        if self.samples.len() < SAMPLE_CAP {
            self.samples.push(v);
        }
    }

    pub fn violation(&mut self, signature: &str, witness: Value) {
        let f = self.violations.entry(signature.to_string()).or_default();
        f.count += 1;
        if f.witnesses.len() < WITNESS_CAP {
            f.witnesses.push(witness);
        }
    }

    pub fn violation_class(&mut self, signature: &str, class: &str, witness: Value) {
        self.violation(signature, witness);
        self.violations.get_mut(signature).unwrap().class = Some(class.to_string());
    }

    pub fn inconclusive(&mut self, why: &str) {
        if self.inconclusive.len() < 20 {
            self.inconclusive.push(why.to_string());
        }
    }

    pub fn write(&self, path: &str) {
        std::fs::write(path, serde_json::to_vec(self).unwrap()).expect("write report");
    }

    /// merge the report of a sandboxed child (same property/shard) into this one
    pub fn merge(&mut self, other: Report) {
        self.evaluations += other.evaluations;
        for h in other.distinct {
            self.distinct(h);
        }
        for s in other.samples {
            self.sample(s);
        }
        for (sig, f) in other.violations {
            let e = self.violations.entry(sig).or_default();
            e.count += f.count;
            if e.class.is_none() {
                e.class = f.class;
            }
            for w in f.witnesses {
                if e.witnesses.len() < WITNESS_CAP {
                    e.witnesses.push(w);
                }
            }
        }
        for (t, m) in other.hist {
            let e = self.hist.entry(t).or_default();
            for (k, v) in m {
                *e.entry(k).or_insert(0) += v;
            }
        }
        for w in other.inconclusive {
            self.inconclusive(&w);
        }
        for (k, v) in other.floor {
            *self.floor.entry(k).or_insert(0) += v;
        }
        for n in other.notes {
            if !self.notes.contains(&n) && self.notes.len() < 50 {
                self.notes.push(n);
            }
        }
    }
}

/// minimal command line: --key value pairs
pub struct Args {
    pub map: BTreeMap<String, String>,
}

impl Args {
    pub fn parse() -> Args {
        let mut map = BTreeMap::new();
        let v: Vec<String> = std::env::args().skip(1).collect();
        let mut i = 0;
        while i < v.len() {
            if let Some(k) = v[i].strip_prefix("--") {
                if i + 1 < v.len() && !v[i + 1].starts_with("--") {
                    map.insert(k.to_string(), v[i + 1].clone());
                    i += 2;
                } else {
                    map.insert(k.to_string(), "true".to_string());
                    i += 1;
                }
            } else {
                i += 1;
            }
        }
        Args { map }
    }
    pub fn get(&self, k: &str) -> Option<&str> {
        self.map.get(k).map(|s| s.as_str())
    }
    pub fn str(&self, k: &str, d: &str) -> String {
        self.get(k).unwrap_or(d).to_string()
    }
    pub fn u64(&self, k: &str, d: u64) -> u64 {
        self.get(k).and_then(|s| s.parse().ok()).unwrap_or(d)
    }
    pub fn flag(&self, k: &str) -> bool {
        self.get(k).is_some()
    }
}
