//! monitors: interposition monitors against asn1rs's public traits (DESIGN.md 3.2).
pub mod alloc;
pub mod inject;
pub mod journal;
pub mod report;
pub mod sandbox;
pub mod scopeapi;
pub mod spy;
pub mod zoo;

#[global_allocator]
static GLOBAL: alloc::CountingAlloc = alloc::CountingAlloc;
