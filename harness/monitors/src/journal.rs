//! Panic journal: records message, location and the first in-repo frame of every panic; cases run under
//! `catch_unwind`. With no `unsafe` in asn1rs the process state stays sound after an unwind.
use std::cell::RefCell;
use std::collections::HashMap;
use std::panic::{self, AssertUnwindSafe};
use std::sync::Mutex;

#[derive(Clone, Debug, PartialEq, Eq, Hash)]
pub struct PanicRec {
    pub msg: String,
    pub location: String,
    /// first frame whose source file lies under /repo (function symbol, hash stripped)
    pub frame: String,
}

impl PanicRec {
    /// stable signature: function path + message with numbers normalised
    pub fn signature(&self) -> String {
        format!("panic:{}:{}", self.frame, normalise_msg(&self.msg))
    }
}

pub fn normalise_msg(msg: &str) -> String {
    let mut out = String::new();
    let mut in_num = false;
    let mut in_str = false;
    for c in msg.chars() {
        // quoted strings (type names, identifiers) are not part of a signature
        if c == '"' {
            in_str = !in_str;
            if in_str {
                out.push('S');
            }
            continue;
        }
        if in_str {
            continue;
        }
        if c.is_ascii_digit() {
            if !in_num {
                out.push('N');
                in_num = true;
            }
        } else {
            in_num = false;
            out.push(c);
        }
    }
    if out.len() > 160 {
        out.truncate(160);
    }
    out
}

thread_local! {
    static LAST: RefCell<Option<PanicRec>> = const { RefCell::new(None) };
    static QUIET: RefCell<bool> = const { RefCell::new(true) };
    static DEPTH: RefCell<u32> = const { RefCell::new(0) };
}

static FRAME_CACHE: Mutex<Option<HashMap<String, String>>> = Mutex::new(None);

fn first_repo_frame(location: &str) -> String {
    {
        let cache = FRAME_CACHE.lock().unwrap();
        if let Some(c) = cache.as_ref() {
            if let Some(f) = c.get(location) {
                return f.clone();
            }
        }
    }
    let bt = std::backtrace::Backtrace::force_capture().to_string();
    // format: "  N: symbol\n             at file:line:col\n"
    let mut last_symbol = String::new();
    let mut found = String::new();
    for line in bt.lines() {
        let t = line.trim_start();
        if let Some(rest) = t.strip_prefix("at ") {
            if rest.starts_with("/repo/") && !last_symbol.is_empty() {
                found = last_symbol.clone();
                break;
            }
        } else if let Some(pos) = t.find(": ") {
            if t[..pos].chars().all(|c| c.is_ascii_digit()) {
                last_symbol = strip_hash(&t[pos + 2..]);
            }
        }
    }
    if found.is_empty() {
        found = format!("?{}", location.rsplit('/').next().unwrap_or(location).split(':').next().unwrap_or(""));
    }
    let mut cache = FRAME_CACHE.lock().unwrap();
    cache.get_or_insert_with(HashMap::new).insert(location.to_string(), found.clone());
    found
}

fn strip_hash(sym: &str) -> String {
    let sym = &strip_generics(sym);
    // drop trailing ::h0123456789abcdef
    if let Some(pos) = sym.rfind("::h") {
        let tail = &sym[pos + 3..];
        if tail.len() == 16 && tail.chars().all(|c| c.is_ascii_hexdigit()) {
            return sym[..pos].to_string();
        }
    }
    sym.to_string()
}

pub fn install() {
    panic::set_hook(Box::new(|info| {
        let msg = if let Some(s) = info.payload().downcast_ref::<&str>() {
            s.to_string()
        } else if let Some(s) = info.payload().downcast_ref::<String>() {
            s.clone()
        } else {
            "<non-string panic payload>".to_string()
        };
        let location = info
            .location()
            .map(|l| format!("{}:{}", l.file(), l.line()))
            .unwrap_or_else(|| "?".into());
        let frame = first_repo_frame(&location);
        let quiet = QUIET.with(|q| *q.borrow()) && DEPTH.with(|d| *d.borrow()) > 0;
        if !quiet {
            eprintln!("[journal] panic at {} in {}: {}", location, frame, msg);
        }
        LAST.with(|l| *l.borrow_mut() = Some(PanicRec { msg, location, frame }));
    }));
}

pub fn set_quiet(q: bool) {
    QUIET.with(|c| *c.borrow_mut() = q);
}

/// Run `f`; a panic is turned into `Err(PanicRec)`.
pub fn guarded<T>(f: impl FnOnce() -> T) -> Result<T, PanicRec> {
    LAST.with(|l| *l.borrow_mut() = None);
    DEPTH.with(|d| *d.borrow_mut() += 1);
    let r = panic::catch_unwind(AssertUnwindSafe(f));
    DEPTH.with(|d| *d.borrow_mut() -= 1);
    match r {
        Ok(v) => Ok(v),
        Err(_) => Err(LAST.with(|l| l.borrow_mut().take()).unwrap_or(PanicRec {
            msg: "<panic without journal entry>".into(),
            location: "?".into(),
            frame: "?".into(),
        })),
    }
}

/// `scope_pushed<(), Error, closure<shard_5::g_13::T1>>` -> `scope_pushed`: monomorphisation arguments name zoo types
fn strip_generics(sym: &str) -> String {
    let mut out = String::new();
    let mut depth = 0i32;
    for c in sym.chars() {
        match c {
            '<' => depth += 1,
            '>' => depth -= 1,
            _ if depth == 0 => out.push(c),
            _ => {}
        }
    }
    if out.is_empty() {
        sym.to_string()
    } else {
        out
    }
}
