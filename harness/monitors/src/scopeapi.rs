//! C03, writer state machine driven below the generated code: hand-written `sequence::Constraint`s (what a user of the
//! descriptor API writes by hand) whose extension additions are *not* wrapped in `Option` - the compilers never produce
//! that, so the zoo cannot reach `write_bit_field_entry(false, true)` in the extension states of `Scope`.
//! Every shape root in {M,O}^1..=3 x additions in {M,O}^1..=3 x every presence pattern is written through
//! `Writer::write_sequence` on a real `UperWriter` and compared bit for bit with the preamble rule of X.691 19:
//! extension bit = some addition present; one bit per OPTIONAL root component; additions as count-1, one bit each and
//! open types. A refusal is admitted only as ExtensionFieldsInconsistent and only when the first addition is absent
//! while a later one is present; in that case it is demanded.
use crate::journal::guarded;
use crate::report::Report;
use asn1rs::descriptor::boolean::Boolean;
use asn1rs::descriptor::{common, sequence, Reader, Writer};
use asn1rs::model::asn::Tag;
use asn1rs::protocol::per::ErrorKind;
use asn1rs::rw::UperWriter;
use serde_json::json;

struct Sh<const OPT: u64, const N: u64, const AFTER: u64>;
impl<const OPT: u64, const N: u64, const AFTER: u64> common::Constraint for Sh<OPT, N, AFTER> {
    const TAG: Tag = Tag::DEFAULT_SEQUENCE;
}
impl<const OPT: u64, const N: u64, const AFTER: u64> sequence::Constraint for Sh<OPT, N, AFTER> {
    const NAME: &'static str = "Shape";
    const STD_OPTIONAL_FIELDS: u64 = OPT;
    const FIELD_COUNT: u64 = N;
    const EXTENDED_AFTER_FIELD: Option<u64> = Some(AFTER);
    fn read_seq<R: Reader>(_reader: &mut R) -> Result<Self, R::Error> {
        unreachable!("write side only")
    }
    fn write_seq<W: Writer>(&self, _writer: &mut W) -> Result<(), W::Error> {
        unreachable!("fields are written by the closure")
    }
}

/// (is_optional, is_present) per field, root first
fn write_fields(w: &mut UperWriter, fields: &[(bool, bool)]) -> Result<(), asn1rs::protocol::per::Error> {
    for (opt, present) in fields {
        if *opt {
            w.write_opt::<Boolean>(if *present { Some(&true) } else { None })?;
        } else {
            w.write_boolean::<asn1rs::descriptor::boolean::NoConstraint>(true)?;
        }
    }
    Ok(())
}

fn drive(opt: u64, n: u64, after: u64, fields: &[(bool, bool)]) -> Option<Result<(usize, Vec<u8>), String>> {
    macro_rules! arm {
        ($($o:literal $n:literal $a:literal),*) => {
            match (opt, n, after) {
                $(($o, $n, $a) => {
                    let mut w = UperWriter::default();
                    let r = w.write_sequence::<Sh<$o, $n, $a>, _>(|w| write_fields(w, fields));
                    Some(match r {
                        Ok(()) => Ok((w.bit_len(), w.byte_content().to_vec())),
                        Err(e) => Err(match e.kind() { ErrorKind::ExtensionFieldsInconsistent(_) => "ExtensionFieldsInconsistent".to_string(), k => format!("{:?}", k).split('(').next().unwrap_or("?").to_string() }),
                    })
                })*
                _ => None,
            }
        };
    }
    // (optional root fields, all fields, index of the last root field)
    arm!(0 2 0, 1 2 0, 0 3 0, 1 3 0, 0 4 0, 1 4 0,
         0 3 1, 1 3 1, 2 3 1, 0 4 1, 1 4 1, 2 4 1, 0 5 1, 1 5 1, 2 5 1,
         0 4 2, 1 4 2, 2 4 2, 3 4 2, 0 5 2, 1 5 2, 2 5 2, 3 5 2, 0 6 2, 1 6 2, 2 6 2, 3 6 2)
}

fn expected(root: &[(bool, bool)], adds: &[(bool, bool)]) -> Result<Vec<bool>, ()> {
    let any = adds.iter().any(|(_, p)| *p);
    if any && !adds[0].1 {
        return Err(());
    }
    let mut b = vec![any];
    b.extend(root.iter().filter(|(o, _)| *o).map(|(_, p)| *p));
    b.extend(root.iter().filter(|(_, p)| *p).map(|_| true)); // BOOLEAN TRUE per present root component
    if any {
        let n = adds.len() as u8 - 1; // normally small non-negative whole number, < 64
        b.push(false);
        b.extend((0..6).rev().map(|i| (n >> i) & 1 == 1));
        b.extend(adds.iter().map(|(_, p)| *p));
        for _ in adds.iter().filter(|(_, p)| *p) {
            // open type: length 1, content 0x80
            b.extend([false, false, false, false, false, false, false, true, true, false, false, false, false, false, false, false]);
        }
    }
    Ok(b)
}

pub fn c03_scope_api(rep: &mut Report) {
    let mut shapes = 0u64;
    for r in 1..=3usize {
        for e in 1..=3usize {
            for kinds in 0..(1u32 << (r + e)) {
                let is_opt: Vec<bool> = (0..r + e).map(|i| (kinds >> i) & 1 == 1).collect();
                let nopt = is_opt.iter().filter(|o| **o).count();
                shapes += 1;
                for pres in 0..(1u32 << nopt) {
                    let mut k = 0;
                    let fields: Vec<(bool, bool)> = is_opt
                        .iter()
                        .map(|o| {
                            if *o {
                                k += 1;
                                (true, (pres >> (k - 1)) & 1 == 1)
                            } else {
                                (false, true)
                            }
                        })
                        .collect();
                    let (root, adds) = fields.split_at(r);
                    let ropt = root.iter().filter(|(o, _)| *o).count() as u64;
                    let label = || {
                        let s = |f: &[(bool, bool)]| f.iter().map(|(o, p)| match (o, p) { (false, _) => 'M', (true, true) => 'P', (true, false) => 'a' }).collect::<String>();
                        format!("{}|{}", s(root), s(adds))
                    };
                    rep.eval();
                    rep.distinct(vgen::rng::hash_str(&format!("scopeapi:{}", label())));
                    let want = expected(root, adds);
                    let kind_of_adds = if adds.iter().any(|(o, _)| !*o) { "mandatory-addition" } else { "optional-additions" };
                    let got = guarded(|| drive(ropt, (r + e) as u64, r as u64 - 1, &fields));
                    let got = match got {
                        Err(p) => {
                            rep.violation(&format!("c03:scope-api:panic:{}:{}", kind_of_adds, p.signature()), json!({"shape": label()}));
                            continue;
                        }
                        Ok(None) => {
                            rep.inconclusive(&format!("scope-api: no arm for ({}, {}, {})", ropt, r + e, r - 1));
                            continue;
                        }
                        Ok(Some(g)) => g,
                    };
                    rep.hist("scope-api", match (&want, &got) { (Ok(_), Ok(_)) => "written", (Err(_), Err(_)) => "refused-as-documented", _ => "disagree" });
                    match (want, got) {
                        (Ok(w), Ok((n, bytes))) => {
                            let bits: Vec<bool> = (0..n).map(|i| (bytes[i / 8] >> (7 - i % 8)) & 1 == 1).collect();
                            if bits != w {
                                let what = if bits.first() != w.first() { "extension-bit" } else if bits.len() != w.len() { "length" } else { "content" };
                                rep.violation(&format!("c03:scope-api:bits-differ:{}:{}", kind_of_adds, what), json!({"shape": label(), "want_bits": w.len(), "got_bits": n, "got": bytes}));
                            }
                        }
                        (Err(()), Err(k)) => {
                            if k != "ExtensionFieldsInconsistent" {
                                rep.violation(&format!("c03:scope-api:refused-with-another-error:{}:{}", kind_of_adds, k), json!({"shape": label()}));
                            }
                        }
                        (Ok(_), Err(k)) => rep.violation(&format!("c03:scope-api:refused-although-consistent:{}:{}", kind_of_adds, k), json!({"shape": label()})),
                        (Err(()), Ok((n, bytes))) => rep.violation(
                            &format!("c03:scope-api:written-although-first-addition-absent-and-later-present:{}", kind_of_adds),
                            json!({"shape": label(), "got_bits": n, "got": bytes}),
                        ),
                    }
                }
            }
        }
    }
    rep.hist_add("scope-api", "shapes", shapes);
}
