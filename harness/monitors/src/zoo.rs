//! Per-type zoo monitors. `run::<T>` is instantiated in the generated shard crates for every zoo type.
use crate::inject::{Extractor, Injector, SetOrder};
use crate::journal::guarded;
use crate::report::Report;
use crate::spy::SpyBits;
use asn1rs::descriptor::{Readable, Reader, Writable, Writer};
use asn1rs::rw::{UperReader, UperWriter};
use serde_json::{json, Value};
use std::collections::BTreeSet;
use std::fmt::Debug;
use vgen::bits::*;
use vgen::per::{Dec, Deviations, Enc};
use vgen::rng::{hash_str, Rng};
use vgen::schema::*;
use vgen::valgen::ValGen;
use vgen::value::{hash_val, Val};

pub trait ZooType: Readable + Writable + PartialEq + Debug + Clone + 'static {}
impl<T: Readable + Writable + PartialEq + Debug + Clone + 'static> ZooType for T {}

#[derive(Clone, Debug)]
pub struct TypeEntry {
    pub id: usize,
    pub shard: usize,
    pub universe: Option<usize>,
    pub module: usize,
    pub def: String,
    pub family: String,
    pub pair_def: Option<String>,
    pub note: Value,
}

impl TypeEntry {
    pub fn from_json(v: &Value) -> TypeEntry {
        TypeEntry {
            id: v["id"].as_u64().unwrap_or(0) as usize,
            shard: v["shard"].as_u64().unwrap_or(0) as usize,
            universe: v["universe"].as_u64().map(|u| u as usize),
            module: v["module"].as_u64().unwrap_or(0) as usize,
            def: v["def"].as_str().unwrap_or("").to_string(),
            family: v["family"].as_str().unwrap_or("").to_string(),
            pair_def: v["pair_def"].as_str().map(|s| s.to_string()),
            note: v["note"].clone(),
        }
    }
}

/// what a dispatch call is asked to do
#[derive(Clone, Debug, PartialEq, Eq)]
pub enum Mode {
    /// the per-type workload of the property
    Single,
    /// write value number `n` of this type into the shared history writer
    HistWrite(u64),
    /// read value number `n` of this type from the shared history reader and compare
    HistRead(u64),
}

pub struct ZooCtx<'a> {
    pub prop: String,
    pub tier: String,
    pub seed: u64,
    pub rep: Report,
    /// resolved universes (value references replaced by literals, by vgen's own resolver)
    pub universes: &'a [Universe],
    /// deviation models of recorded findings (known_findings.json), empty = plain X.691
    pub known_dev: Deviations,
    pub known_classes: BTreeSet<String>,
    pub set_order: SetOrder,
    pub values_per_type: u64,
    pub mode: Mode,
    pub hist_writer: UperWriter,
    pub hist_boundaries: Vec<usize>,
    pub hist_reader: Option<UperReader<SpyBits<'a>>>,
    pub hist_log: Vec<Value>,
    pub hist_cursor: usize,
    /// C19: outcome table lines
    pub table: Vec<String>,
    /// C18: parsed .proto files per universe index
    pub protos: std::collections::BTreeMap<usize, std::rc::Rc<ProtoSet>>,
}

impl<'a> ZooCtx<'a> {
    pub fn universe(&self, e: &TypeEntry) -> Option<&'a Universe> {
        e.universe.and_then(|u| self.universes.get(u))
    }
    fn rng_for(&self, e: &TypeEntry, n: u64) -> Rng {
        Rng::derive(self.seed, &[&self.prop, "value", &e.family], (e.id as u64) << 24 | n)
    }
}

pub fn type_of<'u>(u: &'u Universe, e: &TypeEntry) -> Option<&'u Type> {
    u.modules.get(e.module).and_then(|m| m.def(&e.def)).map(|d| &d.ty)
}

fn top_kind(u: &Universe, e: &TypeEntry) -> &'static str {
    type_of(u, e).map(|t| t.kind_name()).unwrap_or("?")
}

/// a small vocabulary of value/type features used in signatures (kept stable on purpose)
pub fn features(u: &Universe, mi: usize, t: &Type, v: &Val, out: &mut BTreeSet<&'static str>, depth: usize) {
    if depth > 40 {
        return;
    }
    match (t, v) {
        (Type::Ref(n), _) => {
            if let Some((dmi, d)) = u.lookup_def(mi, n) {
                features(u, dmi, &d.ty, v, out, depth + 1);
            }
        }
        (Type::Sequence(c), Val::Seq(f)) | (Type::Set(c), Val::Seq(f)) => {
            let nroot = c.root.len();
            if c.ext.is_some() {
                out.insert("extensible-seq");
            }
            let mut seen_absent_addition = false;
            {
                // presence as encoded: a DEFAULT component equal to its default is absent
                let encoded_present = |i: usize| -> bool {
                    match (f.get(i).and_then(|x| x.as_ref()), c.all().nth(i)) {
                        (Some(x), Some(comp)) => match &comp.presence {
                            Presence::Default(DefaultVal::Lit(l)) => vgen::per::lit_to_val(u, mi, &comp.ty, l).map(|d| &d != x).unwrap_or(true),
                            _ => true,
                        },
                        _ => false,
                    }
                };
                if f.len() > nroot && !encoded_present(nroot) && (nroot + 1..f.len()).any(encoded_present) {
                    out.insert("first-addition-absent-later-present");
                }
            }
            for (i, comp) in c.all().enumerate() {
                let is_add = i >= nroot;
                match f.get(i).and_then(|x| x.as_ref()) {
                    Some(x) => {
                        if is_add {
                            out.insert("addition-present");
                            if seen_absent_addition {
                                out.insert("addition-present-after-absent-one");
                            }
                            if matches!(comp.presence, Presence::Default(_)) {
                                out.insert("default-addition");
                            }
                        }
                        if matches!(resolve_kind(u, mi, &comp.ty), Some(Type::Null)) && c.ext.is_some() && !is_add {
                            out.insert("null-root-component-in-extensible-seq");
                        }
                        features(u, mi, &comp.ty, x, out, depth + 1);
                    }
                    None => {
                        if is_add {
                            seen_absent_addition = true;
                        }
                    }
                }
            }
        }
        (Type::SequenceOf { elem, .. }, Val::List(l)) | (Type::SetOf { elem, .. }, Val::List(l)) => {
            if l.len() >= 16384 {
                out.insert("list>=16K");
            }
            for x in l.iter().take(if l.len() <= 2000 { l.len() } else { 8 }) {
                features(u, mi, elem, x, out, depth + 1);
            }
        }
        (Type::Choice { root, ext }, Val::Choice(i, inner)) => {
            if *i >= root.len() {
                out.insert("choice-extension-alternative");
            }
            if let Some(a) = root.iter().chain(ext.iter().flatten()).nth(*i) {
                features(u, mi, &a.ty, inner, out, depth + 1);
            }
        }
        (Type::Enumerated { root, .. }, Val::Enum(i)) => {
            if *i >= root.len() {
                out.insert("enum-extension-item");
            }
        }
        (Type::CharString { cs, .. }, Val::Str(s)) => {
            if s.chars().count() >= 16384 {
                out.insert(if *cs == Charset::Utf8 { "utf8>=16K" } else { "string>=16K" });
            }
        }
        (Type::OctetString { .. }, Val::Bytes(b)) => {
            if b.len() >= 16384 {
                out.insert("octets>=16K");
            }
        }
        (Type::BitString { .. }, Val::Bits(b)) => {
            if b.len() >= 16384 {
                out.insert("bits>=16K");
            }
        }
        _ => {}
    }
}

fn resolve_kind<'u>(u: &'u Universe, mi: usize, t: &'u Type) -> Option<&'u Type> {
    match t {
        Type::Ref(n) => u.lookup_def(mi, n).and_then(|(dmi, d)| resolve_kind(u, dmi, &d.ty)),
        other => Some(other),
    }
}

fn feature_sig(u: &Universe, e: &TypeEntry, v: &Val) -> String {
    let mut f = BTreeSet::new();
    features(u, e.module, &Type::Ref(e.def.clone()), v, &mut f, 0);
    if f.is_empty() {
        "plain".to_string()
    } else {
        f.into_iter().collect::<Vec<_>>().join("+")
    }
}

pub fn buffer_shape_ok(w: &UperWriter) -> bool {
    let n = w.bit_len();
    let c = w.byte_content();
    if c.len() != (n + 7) / 8 {
        return false;
    }
    let bits = bytes_to_bools(c, c.len() * 8);
    !bits[n..].iter().any(|b| *b)
}

fn wit(u: &Universe, e: &TypeEntry, v: &Val, extra: Value) -> Value {
    // the module of the type first, then the other modules of its group (imports)
    let mut asn1: Vec<String> = Vec::new();
    if let Some(m) = u.modules.get(e.module) {
        asn1.push(vgen::print::print_module(m).chars().take(6000).collect());
    }
    for (i, m) in u.modules.iter().enumerate() {
        if i != e.module {
            asn1.push(vgen::print::print_module(m).chars().take(3000).collect());
        }
    }
    json!({"type": e.def, "family": e.family, "value": v.short(), "asn1": asn1.join("\n"), "detail": extra})
}

/// generate value `n` of the entry's type
pub fn gen_value(ctx: &ZooCtx, u: &Universe, e: &TypeEntry, n: u64) -> Val {
    let mut rng = ctx.rng_for(e, n);
    let mut g = ValGen::new(u, &mut rng);
    g.large = e.family == "large";
    let budget = if e.family == "large" { 250_000 } else { 400 };
    g.gen_def(e.module, &e.def, budget)
}

/// Injector -> T, with the Extractor identity check. None = violation already recorded or unrepresentable.
pub fn make<T: ZooType>(ctx: &mut ZooCtx, u: &Universe, e: &TypeEntry, v: &Val, prop_tag: &str) -> Option<T> {
    let r = guarded(|| Injector::inject::<T>(u, ctx.set_order, e.module, &e.def, v));
    let t = match r {
        Err(p) => {
            ctx.rep.violation(&format!("{}:injector:{}", prop_tag, p.signature()), wit(u, e, v, json!(null)));
            return None;
        }
        Ok(Err(msg)) => {
            let cls: String = msg.split(':').next().unwrap_or("").chars().take(90).collect();
            ctx.rep.violation(&format!("{}:structure-mismatch:{}:{}", prop_tag, top_kind(u, e), cls), wit(u, e, v, json!({"error": msg})));
            return None;
        }
        Ok(Ok(t)) => t,
    };
    match guarded(|| Extractor::extract(u, ctx.set_order, e.module, &e.def, &t)) {
        Ok(Ok(back)) => {
            if &back != v {
                // the generated Rust type cannot represent the abstract value (or stores it differently)
                ctx.rep.hist("outcomes", "unrepresentable-in-generated-type");
                ctx.rep.violation(&format!("{}:inject-extract-identity:{}", prop_tag, top_kind(u, e)), wit(u, e, v, json!({"extracted": back.short()})));
                return None;
            }
        }
        Ok(Err(msg)) => {
            let cls: String = msg.split(':').next().unwrap_or("").chars().take(90).collect();
            ctx.rep.violation(&format!("{}:structure-mismatch:{}:{}", prop_tag, top_kind(u, e), cls), wit(u, e, v, json!({"error": msg})));
            return None;
        }
        Err(p) => {
            ctx.rep.violation(&format!("{}:extractor:{}", prop_tag, p.signature()), wit(u, e, v, json!(null)));
            return None;
        }
    }
    Some(t)
}

pub fn kind_name(e: &asn1rs::protocol::per::Error) -> String {
    let s = format!("{:?}", e.kind());
    s.split(|c: char| !c.is_alphanumeric()).next().unwrap_or("").to_string()
}

/// decode one message through a spying reader; returns (result, bits consumed, spy statistics)
pub fn decode_spy<T: ZooType>(bytes: &[u8], bit_len: usize) -> Result<(Result<T, asn1rs::protocol::per::Error>, usize, u64, usize), crate::journal::PanicRec> {
    guarded(|| {
        let mut r = UperReader::from(SpyBits::new(bytes, bit_len));
        let res = r.read::<T>();
        let bits = r.into_bits();
        use asn1rs::rw::ScopedBitRead;
        (res, bits.pos(), bits.overreads, bits.max_touched)
    })
}

// =============================================================================================
// C01

/// Is the writer's refusal of this value one that C02 records (same decision as c02_single)? Returns the reason.
fn recorded_refusal(ctx: &ZooCtx, u: &Universe, e: &TypeEntry, v: &Val, fs: &str, kind: &str) -> Option<String> {
    let mut enc = Enc::new(u, Deviations::default());
    if enc.encode_def(e.module, &e.def, v).is_err() {
        // the reference refuses it as well: the generator produced a value outside its constraints
        return Some("not-a-profile-value".into());
    }
    let classes: Vec<&'static str> = enc.classes.iter().copied().collect();
    let first_absent = fs.contains("first-addition-absent-later-present");
    let sorted_first_absent = fs.contains("addition-present") && classes.contains(&"set-additions-unsorted") && ctx.known_classes.contains("set-additions-unsorted");
    if kind == "ExtensionFieldsInconsistent" && ctx.known_classes.contains("first-addition-absent") && (first_absent || sorted_first_absent) {
        return Some("recorded-class:first-addition-absent".into());
    }
    if !classes.is_empty() {
        let mut dev = Deviations::default();
        for c in &classes {
            if ctx.known_classes.contains(*c) {
                dev.set(c, true);
            }
        }
        if matches!(vgen::per::encode_dev(u, e.module, &e.def, v, &dev), Err(m) if m == "deviation-model:refused") {
            return Some("recorded-class:deviation-model-predicts-refusal".into());
        }
    }
    None
}

fn c01_single<T: ZooType>(ctx: &mut ZooCtx, u: &Universe, e: &TypeEntry) {
    let n = if e.family == "large" { (ctx.values_per_type / 2).max(6) } else { ctx.values_per_type };
    for k in 0..n {
        let v = gen_value(ctx, u, e, k);
        ctx.rep.eval();
        let t: T = match make::<T>(ctx, u, e, &v, "c01") {
            Some(t) => t,
            None => continue,
        };
        let fs = feature_sig(u, e, &v);
        let mut w = UperWriter::default();
        match guarded(|| w.write(&t)) {
            Err(p) => {
                ctx.rep.violation(&format!("c01:write:{}", p.signature()), wit(u, e, &v, json!({"features": fs})));
                continue;
            }
            Ok(Err(err)) => {
                // a value inside its constraints that cannot be written does not round-trip; the only refusal that is
                // recorded (C02 class first-addition-absent) is recognised by its error kind and by the value's shape
                let kind = kind_name(&err);
                match recorded_refusal(ctx, u, e, &v, &fs, &kind) {
                    Some(why) => ctx.rep.hist("outcomes", &format!("encode-refused:{}", why)),
                    None => ctx.rep.violation(&format!("c01:writer-refuses-value-inside-its-constraints:{}:{}", kind, fs), wit(u, e, &v, json!({"error": format!("{}", err)}))),
                }
                continue;
            }
            Ok(Ok(())) => {}
        }
        if !buffer_shape_ok(&w) {
            ctx.rep.violation(&format!("c01:writer-buffer-shape:{}", fs), wit(u, e, &v, json!({"bit_len": w.bit_len(), "bytes": w.byte_content().len()})));
        }
        let bit_len = w.bit_len();
        let bytes = w.byte_content().to_vec();
        round_trip_checks::<T>(ctx, u, e, &v, &t, &bytes, bit_len, &fs, "c01");
        // second way of constructing the reader: as_reader()
        if k % 4 == 0 {
            match guarded(|| {
                let mut r = w.as_reader();
                let x = r.read::<T>();
                (x, r.bits_remaining())
            }) {
                Ok((Ok(t2), rem)) => {
                    if t2 != t || rem != 0 {
                        ctx.rep.violation(&format!("c01:as_reader-differs:{}", fs), wit(u, e, &v, json!({"remaining": rem})));
                    }
                }
                Ok((Err(err), _)) => ctx.rep.violation(&format!("c01:as_reader-decode-error:{}:{}", kind_name(&err), fs), wit(u, e, &v, json!(null))),
                Err(p) => ctx.rep.violation(&format!("c01:as_reader:{}", p.signature()), wit(u, e, &v, json!(null))),
            }
        }
        if bit_len > 0 && v.nodes() > 1 {
            ctx.rep.distinct(hash_str(&e.def) ^ vgen::rng::hash_bytes(&bytes) ^ (e.id as u64) << 32);
        }
        ctx.rep.hist("kinds", top_kind(u, e));
        if k == 0 && e.id % 40 == 0 {
            ctx.rep.sample(json!({"type": e.def, "value": v.short(), "uper": hex(&bytes).chars().take(120).collect::<String>(), "bit_len": bit_len}));
        }
    }
}

#[allow(clippy::too_many_arguments)]
fn round_trip_checks<T: ZooType>(ctx: &mut ZooCtx, u: &Universe, e: &TypeEntry, v: &Val, t: &T, bytes: &[u8], bit_len: usize, fs: &str, tag: &str) -> bool {
    match decode_spy::<T>(bytes, bit_len) {
        Err(p) => {
            ctx.rep.violation(&format!("{}:read:{}", tag, p.signature()), wit(u, e, v, json!({"uper": hex(bytes).chars().take(200).collect::<String>(), "bit_len": bit_len, "features": fs})));
            false
        }
        Ok((Err(err), _, _, _)) => {
            ctx.rep.violation(&format!("{}:decode-error:{}:{}:{}", tag, top_kind(u, e), kind_name(&err), fs), wit(u, e, v, json!({"uper": hex(bytes).chars().take(200).collect::<String>(), "bit_len": bit_len})));
            false
        }
        Ok((Ok(t2), pos, overreads, _)) => {
            let mut ok = true;
            if &t2 != t {
                let back = Extractor::extract(u, ctx.set_order, e.module, &e.def, &t2).map(|b| b.short()).unwrap_or_else(|e| e);
                ctx.rep.violation(&format!("{}:decoded-value-differs:{}:{}", tag, top_kind(u, e), fs), wit(u, e, v, json!({"decoded": back, "uper": hex(bytes).chars().take(200).collect::<String>()})));
                ok = false;
            } else {
                match Extractor::extract(u, ctx.set_order, e.module, &e.def, &t2) {
                    Ok(back) if &back == v => {}
                    _ => {
                        ctx.rep.violation(&format!("{}:decoded-value-differs-on-abstract-level:{}", tag, top_kind(u, e)), wit(u, e, v, json!(null)));
                        ok = false;
                    }
                }
            }
            if pos != bit_len {
                ctx.rep.violation(&format!("{}:bits-consumed-differ:{}:{}", tag, top_kind(u, e), fs), wit(u, e, v, json!({"consumed": pos, "written": bit_len})));
                ok = false;
            }
            if overreads > 0 {
                ctx.rep.violation(&format!("{}:read-beyond-declared-length", tag), wit(u, e, v, json!({"bit_len": bit_len})));
                ok = false;
            }
            ok
        }
    }
}

fn c01_hist_write<T: ZooType>(ctx: &mut ZooCtx, u: &Universe, e: &TypeEntry, n: u64) {
    let v = gen_value(ctx, u, e, 1_000_000 + n);
    let t: T = match guarded(|| Injector::inject::<T>(u, ctx.set_order, e.module, &e.def, &v)) {
        Ok(Ok(t)) => t,
        _ => {
            ctx.hist_log.push(json!({"type": e.def, "skipped": "inject"}));
            ctx.hist_boundaries.push(usize::MAX);
            return;
        }
    };
    let before = ctx.hist_writer.bit_len();
    let r = guarded(|| ctx.hist_writer.write(&t));
    match r {
        Ok(Ok(())) => {
            ctx.hist_boundaries.push(ctx.hist_writer.bit_len());
            ctx.hist_log.push(json!({"type": e.def, "value": v.short(), "starts_at_bit": before, "ends_at_bit": ctx.hist_writer.bit_len()}));
            ctx.rep.hist("history-start-offsets-mod8", &format!("{}", before % 8));
        }
        Ok(Err(_)) => {
            // a refused value may leave partial output behind: the history ends here (a fresh writer is used for the next one)
            ctx.hist_boundaries.push(usize::MAX - 1);
            ctx.hist_log.push(json!({"type": e.def, "value": v.short(), "refused": true}));
        }
        Err(p) => {
            ctx.rep.violation(&format!("c01:history-write:{}", p.signature()), json!({"history": ctx.hist_log}));
            ctx.hist_boundaries.push(usize::MAX - 1);
        }
    }
}

fn c01_hist_read<T: ZooType>(ctx: &mut ZooCtx, u: &Universe, e: &TypeEntry, n: u64, index: usize) {
    let v = gen_value(ctx, u, e, 1_000_000 + n);
    let want_end = ctx.hist_boundaries[index];
    let t: T = match guarded(|| Injector::inject::<T>(u, ctx.set_order, e.module, &e.def, &v)) {
        Ok(Ok(t)) => t,
        _ => return,
    };
    let reader = match ctx.hist_reader.as_mut() {
        Some(r) => r,
        None => return,
    };
    let r = guarded(|| reader.read::<T>());
    let fs = feature_sig(u, e, &v);
    match r {
        Err(p) => ctx.rep.violation(&format!("c01:history-read:{}", p.signature()), json!({"history": ctx.hist_log, "index": index})),
        Ok(Err(err)) => ctx.rep.violation(&format!("c01:history:decode-error:{}:{}", kind_name(&err), fs), json!({"history": ctx.hist_log, "index": index})),
        Ok(Ok(t2)) => {
            let remaining = ctx.hist_reader.as_ref().map(|r| r.bits_remaining()).unwrap_or(0);
            let total = ctx.hist_writer.bit_len();
            let pos = total - remaining.min(total);
            if t2 != t {
                ctx.rep.violation(&format!("c01:history:decoded-value-differs:{}", fs), json!({"history": ctx.hist_log, "index": index}));
            } else if pos != want_end {
                ctx.rep.violation(&format!("c01:history:reader-position-differs-from-writer-boundary:{}", fs), json!({"history": ctx.hist_log, "index": index, "reader_at": pos, "boundary": want_end}));
            }
        }
    }
}

// =============================================================================================
// C02

fn c02_single<T: ZooType>(ctx: &mut ZooCtx, u: &Universe, e: &TypeEntry) {
    let n = if e.family == "large" { (ctx.values_per_type / 2).max(6) } else { ctx.values_per_type };
    for k in 0..n {
        let v = gen_value(ctx, u, e, k);
        ctx.rep.eval();
        // reference first: the value must be inside its constraints to be a profile value
        let mut enc = Enc::new(u, Deviations::default());
        let e0 = match enc.encode_def(e.module, &e.def, &v) {
            Ok(b) => b,
            Err(_) => {
                ctx.rep.hist("outcomes", "not-a-profile-value");
                continue;
            }
        };
        let classes: Vec<&'static str> = enc.classes.iter().copied().collect();
        for c in &enc.cells {
            ctx.rep.hist("constraint-classes", c);
        }
        // reference self-check: decode(encode(v)) == v
        {
            let dec = Dec::new(u);
            let mut inp = BitIn::new(&e0.bits);
            match dec.decode_def(e.module, &e.def, &mut inp) {
                Ok(back) if back == v && inp.remaining() == 0 => {}
                other => {
                    ctx.rep.inconclusive(&format!("reference self-test failed for {}: {:?}", e.def, other.map(|x| x.short())));
                    continue;
                }
            }
        }
        let t: T = match make::<T>(ctx, u, e, &v, "c02") {
            Some(t) => t,
            None => continue,
        };
        let fs = feature_sig(u, e, &v);
        let mut w = UperWriter::default();
        let written = guarded(|| w.write(&t));
        let class_sig = if classes.is_empty() { "none".to_string() } else { classes.join("+") };
        // expectation under the deviation models of the classes this case touches
        let e1: Option<Result<BitOut, String>> = if classes.is_empty() {
            None
        } else {
            // only the deviation models of recorded findings are consulted; everything else is plain X.691
            let mut dev = Deviations::default();
            for c in &classes {
                if ctx.known_classes.contains(*c) {
                    dev.set(c, true);
                }
            }
            Some(vgen::per::encode_dev(u, e.module, &e.def, &v, &dev))
        };
        let first_absent = fs.contains("first-addition-absent-later-present");
        let mut deviates = false;
        match written {
            Err(p) => {
                ctx.rep.violation(&format!("c02:write:{}", p.signature()), wit(u, e, &v, json!({"classes": classes})));
                continue;
            }
            Ok(Err(err)) => {
                deviates = true;
                let kind = kind_name(&err);
                // with additions visited in tag order (recorded finding) the "first" addition is another one than in the text
                let sorted_first_absent = fs.contains("addition-present") && classes.contains(&"set-additions-unsorted") && ctx.known_classes.contains("set-additions-unsorted");
                if kind == "ExtensionFieldsInconsistent" && (first_absent || sorted_first_absent) {
                    ctx.rep.violation_class("c02:writer-refuses:first-addition-absent-later-present", "first-addition-absent", wit(u, e, &v, json!({"error": format!("{}", err)})));
                } else if matches!(&e1, Some(Err(m)) if m == "deviation-model:refused") {
                    for c in classes.iter().filter(|c| ctx.known_classes.contains(**c) && c.starts_with("int-")) {
                        ctx.rep.violation_class(&format!("c02:deviation:{}", c), c, wit(u, e, &v, json!({"writer": "refuses, as the deviation model predicts", "error": format!("{}", err)})));
                    }
                } else {
                    ctx.rep.violation(&format!("c02:writer-refuses-profile-value:{}:{}:{}", kind, class_sig, fs), wit(u, e, &v, json!({"error": format!("{}", err)})));
                }
                continue;
            }
            Ok(Ok(())) => {
                let got = bytes_to_bools(w.byte_content(), w.bit_len());
                if got != e0.bits {
                    deviates = true;
                    match &e1 {
                        Some(Ok(e1)) if e1.bits == got => {
                            // pinned by the deviation models: one signature per class that matters for this case
                            for c in classes.iter().filter(|c| ctx.known_classes.contains(**c)) {
                                let mut dev = Deviations::default();
                                for o in &classes {
                                    if o != c && ctx.known_classes.contains(*o) {
                                        dev.set(o, true);
                                    }
                                }
                                let without = vgen::per::encode_dev(u, e.module, &e.def, &v, &dev);
                                if !matches!(&without, Ok(b) if b.bits == got) {
                                    ctx.rep.violation_class(&format!("c02:deviation:{}", c), c, wit(u, e, &v, json!({"uper": bitstr_short(&got), "x691": bitstr_short(&e0.bits)})));
                                }
                            }
                        }
                        _ => {
                            let first = got.iter().zip(e0.bits.iter()).position(|(a, b)| a != b).unwrap_or(got.len().min(e0.bits.len()));
                            ctx.rep.violation(
                                &format!("c02:bits-differ:{}:{}:{}:{}", top_kind(u, e), if got.len() != e0.bits.len() { "length" } else { "content" }, class_sig, fs),
                                wit(u, e, &v, json!({"uper": bitstr_short(&got), "x691": bitstr_short(&e0.bits), "first_diff_bit": first, "uper_bits": got.len(), "x691_bits": e0.bits.len()})),
                            );
                        }
                    }
                }
            }
        }
        // reader on the canonical encoding (where the writer follows a recorded deviation model the reader does too;
        // that is part of the same finding and C01 pins the round trip)
        let cbytes = e0.to_bytes();
        if !deviates {
            match decode_spy::<T>(&cbytes, e0.bits.len()) {
                Err(p) => ctx.rep.violation(&format!("c02:read-x691:{}", p.signature()), wit(u, e, &v, json!({"x691": hex(&cbytes).chars().take(200).collect::<String>()}))),
                Ok((Err(err), _, _, _)) => {
                    ctx.rep.violation(&format!("c02:reader-rejects-x691:{}:{}:{}:{}", top_kind(u, e), kind_name(&err), class_sig, fs), wit(u, e, &v, json!({"x691": hex(&cbytes).chars().take(200).collect::<String>()})));
                }
                Ok((Ok(t2), pos, _, _)) => {
                    if t2 != t {
                        ctx.rep.violation(&format!("c02:reader-decodes-x691-to-other-value:{}:{}:{}", top_kind(u, e), class_sig, fs), wit(u, e, &v, json!({"x691": hex(&cbytes).chars().take(200).collect::<String>()})));
                    } else if pos != e0.bits.len() {
                        ctx.rep.violation(&format!("c02:reader-consumes-other-bit-count-on-x691:{}:{}", class_sig, fs), wit(u, e, &v, json!({"consumed": pos, "x691_bits": e0.bits.len()})));
                    }
                }
            }
        }
        if !deviates {
            ctx.rep.hist("outcomes", "bit-exact");
        }
        if e0.bits.len() > 0 && v.nodes() > 1 {
            ctx.rep.distinct(hash_val(&v) ^ (e.id as u64) << 40);
        }
        ctx.rep.hist("kinds", top_kind(u, e));
        if k == 1 && e.id % 40 == 0 {
            ctx.rep.sample(json!({"type": e.def, "value": v.short(), "x691": hex(&cbytes).chars().take(120).collect::<String>(), "bits": e0.bits.len(), "classes": classes}));
        }
    }
}

fn bitstr_short(b: &[bool]) -> String {
    let s = bitstr(b);
    if s.len() > 160 {
        format!("{}…({} bits)", &s[..160], s.len())
    } else {
        s
    }
}

// =============================================================================================
// C03: presence semantics of every shape

fn c03_single<T: ZooType>(ctx: &mut ZooCtx, u: &Universe, e: &TypeEntry) {
    let (c, is_set) = match type_of(u, e) {
        Some(Type::Sequence(c)) => (c.clone(), false),
        Some(Type::Set(c)) => (c.clone(), true),
        _ => return,
    };
    let nroot = c.root.len();
    let comps: Vec<&Comp> = c.all().collect();
    // indices whose presence varies
    let var: Vec<usize> = (0..comps.len()).filter(|i| *i >= nroot || !matches!(comps[*i].presence, Presence::Mandatory)).collect();
    let width = |comp: &Comp| -> usize {
        match &comp.ty {
            Type::Boolean => 1,
            Type::Integer { c: Some(IntC { lo: Bound::Lit(a), hi: Bound::Lit(b), .. }), .. } => vgen::per::width_for_range((*b - *a) as u128 + 1) as usize,
            Type::Sequence(_) => 4, // the nested plain SEQUENCE { x INTEGER (0..7), y BOOLEAN } of the shapes family
            _ => 0,
        }
    };
    let value_of = |i: usize, comp: &Comp, variant: bool| -> Val {
        match (&comp.ty, &comp.presence) {
            (Type::Boolean, _) => Val::Bool(true),
            (Type::Null, _) => Val::Null,
            (Type::Sequence(_), _) => Val::Seq(vec![Some(Val::Int((i as i128 + 5) % 8)), Some(Val::Bool(i % 2 == 0))]),
            (_, Presence::Default(_)) => Val::Int(if variant { 200 + i as i128 } else { 5 }),
            _ => Val::Int((i as i128 + 3) % 8),
        }
    };
    for pattern in 0u32..(1u32 << var.len()) {
        ctx.rep.eval();
        // present[i]: is component i encoded as present
        let mut present = vec![true; comps.len()];
        for (k, i) in var.iter().enumerate() {
            present[*i] = pattern & (1 << k) != 0;
        }
        let vals: Vec<Option<Val>> = comps
            .iter()
            .enumerate()
            .map(|(i, comp)| match &comp.presence {
                Presence::Default(_) => Some(value_of(i, comp, present[i])), // absent = equal to the default
                _ => {
                    if present[i] {
                        Some(value_of(i, comp, true))
                    } else {
                        None
                    }
                }
            })
            .collect();
        let v = Val::Seq(vals);
        let t: T = match make::<T>(ctx, u, e, &v, "c03") {
            Some(t) => t,
            None => continue,
        };
        // --- expected preamble, straight from the statement of the property
        let any_add = present[nroot..].iter().any(|p| *p);
        let first_add_absent_later_present = comps.len() > nroot && !present[nroot] && present[nroot + 1..].iter().any(|p| *p);
        let mut preamble: Vec<bool> = Vec::new();
        if c.ext.is_some() {
            preamble.push(any_add);
        }
        let root_order: Vec<usize> = if is_set { vgen::resolve::set_root_order(u, e.module, &c) } else { (0..nroot).collect() };
        for i in &root_order {
            if !matches!(comps[*i].presence, Presence::Mandatory) {
                preamble.push(present[*i]);
            }
        }
        let root_bits: usize = root_order.iter().filter(|i| present[**i]).map(|i| width(comps[*i])).sum();
        let shape = format!("{}{}", e.note["kinds"].as_str().unwrap_or("?"), if c.ext.is_some() { format!("/ext-after-{}", nroot) } else { String::new() });
        let class = format!("{}:{}", if is_set { "SET" } else { "SEQUENCE" }, if any_add { "additions" } else { "root-only" });
        let w_ = |extra: Value| json!({"type": e.def, "shape": shape, "set": is_set, "pattern": present.iter().map(|p| if *p { '1' } else { '0' }).collect::<String>(), "detail": extra});
        // --- reference bits of the pattern (R-PER), including the ones asn1rs cannot write
        let e0 = match vgen::per::encode(u, e.module, &e.def, &v) {
            Ok((b, _)) => b,
            Err(err) => {
                ctx.rep.inconclusive(&format!("reference cannot encode a C03 pattern: {}", err));
                continue;
            }
        };
        if e0.bits.len() < preamble.len() || e0.bits[..preamble.len()] != preamble[..] {
            ctx.rep.inconclusive("reference preamble differs from the preamble derived from the property statement");
            continue;
        }
        // --- the writer
        let mut w = UperWriter::default();
        match guarded(|| w.write(&t)) {
            Err(p) => ctx.rep.violation(&format!("c03:write:{}", p.signature()), w_(json!(null))),
            Ok(Err(err)) => {
                let kind = kind_name(&err);
                if kind == "ExtensionFieldsInconsistent" && first_add_absent_later_present {
                    ctx.rep.hist("outcomes", "sanctioned-refusal:first-addition-absent-later-present");
                } else {
                    ctx.rep.violation(&format!("c03:writer-refuses:{}:{}", kind, class), w_(json!({"error": format!("{}", err)})));
                }
            }
            Ok(Ok(())) => {
                let got = bytes_to_bools(w.byte_content(), w.bit_len());
                if first_add_absent_later_present {
                    // writing it is fine as well - then it has to be right
                    ctx.rep.hist("outcomes", "wrote-first-addition-absent-pattern");
                }
                if got.len() < preamble.len() || got[..preamble.len()] != preamble[..] {
                    let what = if c.ext.is_some() && got.first() != preamble.first() { "extension-bit" } else { "presence-bits" };
                    ctx.rep.violation(&format!("c03:preamble:{}:{}", what, class), w_(json!({"uper": bitstr(&got), "expected_preamble": bitstr(&preamble)})));
                } else if !any_add && got.len() != preamble.len() + root_bits {
                    ctx.rep.violation(&format!("c03:length:{}", class), w_(json!({"uper_bits": got.len(), "expected": preamble.len() + root_bits})));
                } else if got != e0.bits {
                    ctx.rep.violation(&format!("c03:bits-differ-from-reference:{}", class), w_(json!({"uper": bitstr(&got), "x691": bitstr(&e0.bits)})));
                }
                // decode own bits
                match decode_spy::<T>(w.byte_content(), w.bit_len()) {
                    Ok((Ok(t2), pos, _, _)) => {
                        if t2 != t || pos != w.bit_len() {
                            ctx.rep.violation(&format!("c03:own-bits-decode-differently:{}", class), w_(json!({"uper": bitstr(&got)})));
                        }
                    }
                    Ok((Err(err), _, _, _)) => ctx.rep.violation(&format!("c03:own-bits-rejected:{}:{}", kind_name(&err), class), w_(json!({"uper": bitstr(&got)}))),
                    Err(p) => ctx.rep.violation(&format!("c03:read:{}", p.signature()), w_(json!(null))),
                }
            }
        }
        // --- the reader on the reference bits of every pattern
        let cbytes = e0.to_bytes();
        match decode_spy::<T>(&cbytes, e0.bits.len()) {
            Ok((Ok(t2), pos, _, _)) => {
                if t2 != t {
                    let back = Extractor::extract(u, ctx.set_order, e.module, &e.def, &t2).map(|b| b.short()).unwrap_or_else(|e| e);
                    ctx.rep.violation(
                        &format!("c03:reference-bits-decode-to-other-value:{}{}", class, if first_add_absent_later_present { ":first-addition-absent" } else { "" }),
                        w_(json!({"x691": bitstr(&e0.bits), "decoded": back, "expected": v.short()})),
                    );
                } else if pos != e0.bits.len() {
                    ctx.rep.violation(&format!("c03:reference-bits-consumed-differ:{}", class), w_(json!({"x691": bitstr(&e0.bits), "consumed": pos})));
                }
            }
            Ok((Err(err), _, _, _)) => ctx.rep.violation(&format!("c03:reference-bits-rejected:{}:{}", kind_name(&err), class), w_(json!({"x691": bitstr(&e0.bits)}))),
            Err(p) => ctx.rep.violation(&format!("c03:read-reference:{}", p.signature()), w_(json!({"x691": bitstr(&e0.bits)}))),
        }
        ctx.rep.distinct(hash_str(&e.def) ^ ((pattern as u64) << 32) ^ 0xC03);
        ctx.rep.hist("shapes", &format!("n{}{}{}", comps.len(), if c.ext.is_some() { ":ext" } else { "" }, if is_set { ":set" } else { "" }));
        if pattern == 1 && e.id % 50 == 0 {
            ctx.rep.sample(w_(json!({"x691": bitstr(&e0.bits), "preamble": bitstr(&preamble)})));
        }
    }
}

// =============================================================================================
// C05: extension additions across schema versions

struct SentinelC;
impl asn1rs::descriptor::common::Constraint for SentinelC {
    const TAG: asn1rs::model::asn::Tag = asn1rs::model::asn::Tag::DEFAULT_INTEGER;
}
impl asn1rs::descriptor::numbers::Constraint<u16> for SentinelC {
    const MIN: Option<i64> = Some(0);
    const MAX: Option<i64> = Some(65535);
    const MIN_T: Option<u16> = Some(0);
    const MAX_T: Option<u16> = Some(65535);
}
#[derive(Debug, PartialEq, Clone)]
struct Sentinel(u16);
impl Writable for Sentinel {
    fn write<W: Writer>(&self, w: &mut W) -> Result<(), W::Error> {
        use asn1rs::descriptor::WritableType;
        asn1rs::descriptor::numbers::Integer::<u16, SentinelC>::write_value(w, &self.0)
    }
}
impl Readable for Sentinel {
    fn read<R: Reader>(r: &mut R) -> Result<Self, R::Error> {
        use asn1rs::descriptor::ReadableType;
        asn1rs::descriptor::numbers::Integer::<u16, SentinelC>::read_value(r).map(Sentinel)
    }
}
const SENTINEL: u16 = 0xA5C3;

/// one direction: a value of (module `from`) written with type W, read with type R (module `to`)
fn c05_direction<W: ZooType, R: ZooType>(ctx: &mut ZooCtx, u: &Universe, e: &TypeEntry, from: usize, to: usize, dir: &str) {
    let def = if from == 0 { e.def.clone() } else { e.pair_def.clone().unwrap_or_else(|| e.def.clone()) };
    let def_to = if to == 0 { e.def.clone() } else { e.pair_def.clone().unwrap_or_else(|| e.def.clone()) };
    let e_from = TypeEntry { module: from, def: def.clone(), ..e.clone() };
    let e_to = TypeEntry { module: to, def: def_to.clone(), ..e.clone() };
    let n = ctx.values_per_type * 5;
    for k in 0..n {
        let mut rng = ctx.rng_for(&e_from, k ^ if from == 0 { 0 } else { 1 << 20 });
        let v = {
            let mut g = ValGen::new(u, &mut rng);
            g.ext_bias = 10;
            g.gen_def(from, &def, 200)
        };
        ctx.rep.eval();
        let t: W = match guarded(|| Injector::inject::<W>(u, ctx.set_order, from, &def, &v)) {
            Ok(Ok(t)) => t,
            _ => {
                ctx.rep.hist("outcomes", "inject-failed");
                continue;
            }
        };
        let mut w = UperWriter::default();
        match guarded(|| w.write(&t)) {
            Ok(Ok(())) => {}
            Ok(Err(_)) => {
                ctx.rep.hist("outcomes", "encode-refused");
                continue;
            }
            Err(p) => {
                ctx.rep.violation(&format!("c05:write:{}", p.signature()), wit(u, &e_from, &v, json!(null)));
                continue;
            }
        }
        let boundary = w.bit_len();
        let msg_bits = bytes_to_bools(w.byte_content(), boundary);
        if w.write(&Sentinel(SENTINEL)).is_err() {
            continue;
        }
        let total = w.bit_len();
        let bytes = w.byte_content().to_vec();
        // what a conforming decoder of the other version sees (R-PER decoder with the other schema)
        let dec = Dec::new(u);
        let mut inp = BitIn::new(&msg_bits);
        let expected = dec.decode_def(to, &def_to, &mut inp);
        let fs = feature_sig(u, &e_from, &v);
        let r = guarded(|| {
            let mut r = UperReader::from(SpyBits::new(&bytes, total));
            let first = r.read::<R>();
            let pos_after = total - r.bits_remaining().min(total);
            let second = if first.is_ok() { Some(r.read::<Sentinel>()) } else { None };
            (first, pos_after, second)
        });
        // the same message as the only content of the input, declared with its exact bit length: the outcome must not
        // depend on whether anything follows
        let alone_bytes = vgen::bits::bools_to_bytes(&msg_bits);
        let alone = guarded(|| {
            let mut r = UperReader::from(SpyBits::new(&alone_bytes, boundary));
            let first = r.read::<R>();
            (first, boundary - r.bits_remaining().min(boundary))
        });
        let wj = |extra: Value| json!({"direction": dir, "type": def, "value": v.short(), "uper": hex(&bytes), "message_bits": boundary, "asn1_writer": vgen::print::print_module(&u.modules[from]).chars().take(3000).collect::<String>(), "asn1_reader": vgen::print::print_module(&u.modules[to]).chars().take(3000).collect::<String>(), "detail": extra});
        let kind = top_kind(u, &e_from);
        // compare the two readings of the same message (followed by data / alone)
        if let (Ok((first, pos, _)), Ok((first_alone, pos_alone))) = (&r, &alone) {
            let same = match (first, first_alone) {
                (Ok(a), Ok(b)) => a == b && pos == pos_alone,
                (Err(a), Err(b)) => kind_name(a) == kind_name(b),
                _ => false,
            };
            if !same {
                let show = |x: &Result<R, asn1rs::protocol::per::Error>| match x {
                    Ok(_) => "Ok".to_string(),
                    Err(e) => format!("Err({})", kind_name(e)),
                };
                ctx.rep.violation(
                    &format!("c05:{}:outcome-depends-on-what-follows-the-message:followed={}:alone={}", dir, show(first), show(first_alone)),
                    wj(json!({"followed_by_sentinel": {"outcome": show(first), "consumed": pos}, "alone": {"outcome": show(first_alone), "consumed": pos_alone}})),
                );
            }
        } else if let Err(p) = &alone {
            ctx.rep.violation(&format!("c05:{}:read-alone:{}", dir, p.signature()), wj(json!(null)));
        }
        match (r, expected) {
            (Err(p), _) => ctx.rep.violation(&format!("c05:{}:read:{}", dir, p.signature()), wj(json!(null))),
            (Ok((Ok(got), pos, second)), Ok(want)) => {
                if inp.remaining() != 0 {
                    ctx.rep.inconclusive("reference decoder of the other version did not consume the message");
                    continue;
                }
                let back = Extractor::extract(u, ctx.set_order, to, &def_to, &got);
                match back {
                    Ok(b) if b == want => {}
                    Ok(b) => {
                        ctx.rep.violation(&format!("c05:{}:decoded-value-differs:{}:{}", dir, kind, fs), wj(json!({"decoded": b.short(), "expected": want.short()})));
                        continue;
                    }
                    Err(err) => {
                        ctx.rep.violation(&format!("c05:{}:extractor:{}", dir, err.chars().take(60).collect::<String>()), wj(json!(null)));
                        continue;
                    }
                }
                if pos != boundary {
                    ctx.rep.violation(&format!("c05:{}:reader-does-not-end-at-message-end:{}:{}", dir, kind, fs), wj(json!({"reader_at": pos, "message_end": boundary})));
                } else {
                    match second {
                        Some(Ok(Sentinel(s))) if s == SENTINEL => {
                            ctx.rep.hist("outcomes", &format!("{}:ok", dir));
                        }
                        other => ctx.rep.violation(&format!("c05:{}:data-after-the-message-decodes-wrongly:{}", dir, kind), wj(json!({"sentinel": format!("{:?}", other.map(|r| r.map(|s| s.0).map_err(|e| kind_name(&e))))}))),
                    }
                }
            }
            (Ok((Ok(got), _, _)), Err(DecErr::UnknownExtension(_))) => {
                // a CHOICE/ENUMERATED value the reader's version does not know: an error is fine, a value is not
                let b = Extractor::extract(u, ctx.set_order, to, &def_to, &got).map(|b| b.short()).unwrap_or_default();
                ctx.rep.violation(&format!("c05:{}:unknown-extension-decoded-as-a-value:{}:{}", dir, kind, fs), wj(json!({"decoded": b})));
            }
            (Ok((Err(_), _, _)), Err(DecErr::UnknownExtension(_))) => ctx.rep.hist("outcomes", &format!("{}:unknown-extension-rejected", dir)),
            (Ok((Err(err), _, _)), Ok(_)) => ctx.rep.violation(&format!("c05:{}:decode-error:{}:{}:{}", dir, kind, kind_name(&err), fs), wj(json!({"error": format!("{}", err)}))),
            (Ok(_), Err(other)) => ctx.rep.inconclusive(&format!("reference decoder failed: {:?}", other)),
        }
        ctx.rep.distinct(vgen::rng::hash_bytes(&bytes) ^ hash_str(dir) ^ (e.id as u64) << 40);
        ctx.rep.hist("kinds", kind);
        if k == 0 && e.id % 10 == 0 {
            ctx.rep.sample(wj(json!(null)));
        }
    }
}

pub fn run_pair<A: ZooType, B: ZooType>(ctx: &mut ZooCtx, e: &TypeEntry) {
    let u = match ctx.universe(e) {
        Some(u) => u,
        None => return,
    };
    if ctx.prop == "C05" {
        c05_direction::<A, B>(ctx, u, e, 0, 1, "v1-to-v2");
        c05_direction::<B, A>(ctx, u, e, 1, 0, "v2-to-v1");
    }
}

// =============================================================================================
// C06: the encoder rejects constraint violations

#[derive(Clone, Debug)]
pub struct Violation {
    pub what: &'static str,
    /// is the violated constraint extensible (then the value is legal and goes to the extension form)
    pub extensible: bool,
}

/// all single-leaf constraint violations of (t, v): (mutated value, what was violated)
fn violations_of(u: &Universe, mi: usize, t: &Type, v: &Val, rng: &mut Rng, out: &mut Vec<(Val, Violation)>, rebuild: &dyn Fn(Val) -> Val, depth: usize) {
    if depth > 12 || out.len() > 60 {
        return;
    }
    match (t, v) {
        (Type::Ref(n), _) => {
            if let Some((dmi, d)) = u.lookup_def(mi, n) {
                violations_of(u, dmi, &d.ty, v, rng, out, rebuild, depth + 1);
            }
        }
        (Type::Integer { c, .. }, Val::Int(_)) => {
            let (root, ext) = vgen::resolve::int_root(c);
            if let vgen::resolve::IntRoot::Constrained(a, b) = root {
                for (x, what) in [(a - 1, "int:lb-1"), (b + 1, "int:ub+1"), (b + (1i128 << 31), "int:far-above"), (a - (1i128 << 31), "int:far-below")] {
                    if x >= i64::MIN as i128 && x <= i64::MAX as i128 {
                        out.push((rebuild(Val::Int(x)), Violation { what, extensible: ext }));
                    }
                }
            }
        }
        (Type::OctetString { size }, Val::Bytes(_)) | (Type::BitString { size, .. }, Val::Bits(_)) | (Type::CharString { size, .. }, Val::Str(_)) | (Type::SequenceOf { size, .. }, Val::List(_)) | (Type::SetOf { size, .. }, Val::List(_)) => {
            let make_len = |n: usize, rng: &mut Rng| -> Option<Val> {
                Some(match (t, v) {
                    (Type::OctetString { .. }, _) => Val::Bytes(rng.bytes(n)),
                    (Type::BitString { .. }, _) => Val::Bits((0..n).map(|i| i % 2 == 0).collect()),
                    (Type::CharString { cs, .. }, _) => {
                        let alpha: Vec<char> = cs.alphabet().into_iter().filter(|c| c.is_ascii_alphanumeric()).collect();
                        let alpha = if alpha.is_empty() { vec!['1'] } else { alpha };
                        Val::Str((0..n).map(|_| *rng.pick(&alpha)).collect())
                    }
                    (Type::SequenceOf { elem, .. }, Val::List(l)) | (Type::SetOf { elem, .. }, Val::List(l)) => {
                        let proto = match l.first() {
                            Some(p) => p.clone(),
                            None => {
                                let mut g = ValGen::new(u, rng);
                                g.gen(mi, elem, 20)
                            }
                        };
                        Val::List(vec![proto; n])
                    }
                    _ => return None,
                })
            };
            // UTF8String: the size constraint is not PER-visible but asn1rs checks it (in characters)
            if let Some((lb, ub)) = size.bounds() {
                let mut cands: Vec<(u64, &'static str)> = Vec::new();
                if lb > 0 {
                    cands.push((lb - 1, "size:lb-1"));
                    cands.push((0, "size:0"));
                }
                if let Some(ub) = ub {
                    if ub < 5000 {
                        cands.push((ub + 1, "size:ub+1"));
                        cands.push((2 * ub + 2, "size:2ub"));
                    }
                }
                for (n, what) in cands {
                    if n < lb || ub.map(|u| n > u).unwrap_or(false) {
                        if let Some(x) = make_len(n as usize, rng) {
                            out.push((rebuild(x), Violation { what, extensible: size.ext() }));
                        }
                        // UTF8String: SIZE counts characters, not octets - too few characters that are enough octets
                        if let (Type::CharString { cs: Charset::Utf8, .. }, true) = (t, n > 0 && n < lb) {
                            let ch = *rng.pick(&['ä', '€', '𝄞']);
                            let sv: String = std::iter::repeat(ch).take(n as usize).collect();
                            if sv.len() as u64 >= lb {
                                out.push((rebuild(Val::Str(sv)), Violation { what: "size:lb-1:multibyte-characters", extensible: size.ext() }));
                            }
                        }
                    }
                }
                // (the same for the fixed and the half-open forms: half as many 2-octet characters as the lower bound)
                if let (Type::CharString { cs: Charset::Utf8, .. }, true) = (t, lb >= 2) {
                    for ch in ['ä', '€', '𝄞'] {
                        let n = (lb as usize + ch.len_utf8() - 1) / ch.len_utf8();
                        if (n as u64) < lb {
                            let sv: String = std::iter::repeat(ch).take(n).collect();
                            out.push((rebuild(Val::Str(sv)), Violation { what: "size:too-few-characters-but-enough-octets", extensible: size.ext() }));
                        }
                    }
                }
            }
            // alphabet
            if let (Type::CharString { cs, .. }, Val::Str(s)) = (t, v) {
                if *cs != Charset::Utf8 && !s.is_empty() {
                    let chars: Vec<char> = s.chars().collect();
                    let bad: &[char] = match cs {
                        Charset::Numeric => &['a', '-', '\u{7f}', 'é', '\u{141}'],
                        Charset::Printable => &['@', '_', '\u{0}', 'é', '\u{141}', '*'],
                        Charset::Visible => &['\u{1f}', '\u{7f}', 'é', '\u{141}', '\u{4e00}', '\n'],
                        _ => &['\u{80}', 'é', '\u{141}', '\u{4e00}', '\u{1f600}', '\u{ff}'],
                    };
                    for (pos, what) in [(0usize, "alphabet:first"), (chars.len() / 2, "alphabet:middle"), (chars.len() - 1, "alphabet:last")] {
                        let mut c2 = chars.clone();
                        c2[pos] = *rng.pick(bad);
                        out.push((rebuild(Val::Str(c2.into_iter().collect())), Violation { what, extensible: false }));
                    }
                }
            }
            // elements of lists
            if let (Type::SequenceOf { elem, .. }, Val::List(l)) | (Type::SetOf { elem, .. }, Val::List(l)) = (t, v) {
                if let Some(first) = l.first() {
                    let l2 = l.clone();
                    let rb = move |x: Val| {
                        let mut l3 = l2.clone();
                        l3[0] = x;
                        rebuild(Val::List(l3))
                    };
                    violations_of(u, mi, elem, first, rng, out, &rb, depth + 1);
                }
            }
        }
        (Type::Sequence(c), Val::Seq(f)) | (Type::Set(c), Val::Seq(f)) => {
            for (i, comp) in c.all().enumerate() {
                if let Some(Some(x)) = f.get(i) {
                    let f2 = f.clone();
                    let rb = move |y: Val| {
                        let mut f3 = f2.clone();
                        f3[i] = Some(y);
                        rebuild(Val::Seq(f3))
                    };
                    violations_of(u, mi, &comp.ty, x, rng, out, &rb, depth + 1);
                }
            }
        }
        (Type::Choice { root, ext }, Val::Choice(i, inner)) => {
            if let Some(a) = root.iter().chain(ext.iter().flatten()).nth(*i) {
                let idx = *i;
                let rb = move |y: Val| rebuild(Val::Choice(idx, Box::new(y)));
                violations_of(u, mi, &a.ty, inner, rng, out, &rb, depth + 1);
            }
        }
        _ => {}
    }
}

/// UTF8String SIZE constraints are not PER-visible, so R-PER does not look at them; the property (and asn1rs) counts
/// characters. Are all UTF8String values of `v` inside their non-extensible SIZE constraints?
fn utf8_sizes_ok(u: &Universe, mi: usize, t: &Type, v: &Val, depth: usize) -> bool {
    if depth > 40 {
        return true;
    }
    match (t, v) {
        (Type::Ref(n), _) => u.lookup_def(mi, n).map(|(dmi, d)| utf8_sizes_ok(u, dmi, &d.ty, v, depth + 1)).unwrap_or(true),
        (Type::CharString { cs: Charset::Utf8, size }, Val::Str(s)) => match size.bounds() {
            Some((lb, ub)) if !size.ext() => {
                let n = s.chars().count() as u64;
                n >= lb && ub.map(|u| n <= u).unwrap_or(true)
            }
            _ => true,
        },
        (Type::Sequence(c), Val::Seq(f)) | (Type::Set(c), Val::Seq(f)) => c.all().enumerate().all(|(i, comp)| match f.get(i) {
            Some(Some(x)) => utf8_sizes_ok(u, mi, &comp.ty, x, depth + 1),
            _ => true,
        }),
        (Type::SequenceOf { elem, .. }, Val::List(l)) | (Type::SetOf { elem, .. }, Val::List(l)) => l.iter().all(|x| utf8_sizes_ok(u, mi, elem, x, depth + 1)),
        (Type::Choice { root, ext }, Val::Choice(i, inner)) => root.iter().chain(ext.iter().flatten()).nth(*i).map(|a| utf8_sizes_ok(u, mi, &a.ty, inner, depth + 1)).unwrap_or(true),
        _ => true,
    }
}

fn c06_single<T: ZooType>(ctx: &mut ZooCtx, u: &Universe, e: &TypeEntry) {
    let n = (ctx.values_per_type / 4).max(4);
    for k in 0..n {
        let base = gen_value(ctx, u, e, k);
        // the unmutated value must itself be encodable, otherwise the refusal says nothing about the mutation
        let base_ok = match guarded(|| Injector::inject::<T>(u, ctx.set_order, e.module, &e.def, &base)) {
            Ok(Ok(t)) => {
                let mut w = UperWriter::default();
                matches!(guarded(|| w.write(&t)), Ok(Ok(())))
            }
            _ => false,
        };
        if !base_ok {
            ctx.rep.hist("outcomes", "base-value-not-encodable");
            continue;
        }
        let mut rng = ctx.rng_for(e, 5_000_000 + k);
        let mut cands = Vec::new();
        violations_of(u, e.module, &Type::Ref(e.def.clone()), &base, &mut rng, &mut cands, &|x| x, 0);
        for (v, viol) in cands {
            ctx.rep.eval();
            // representable in the generated Rust type? (Injector -> Extractor identity)
            let t: T = match guarded(|| Injector::inject::<T>(u, ctx.set_order, e.module, &e.def, &v)) {
                Ok(Ok(t)) => t,
                _ => {
                    ctx.rep.hist("outcomes", "not-injectable");
                    continue;
                }
            };
            match guarded(|| Extractor::extract(u, ctx.set_order, e.module, &e.def, &t)) {
                Ok(Ok(back)) if back == v => {}
                _ => {
                    ctx.rep.hist("outcomes", &format!("unrepresentable:{}", viol.what));
                    continue;
                }
            }
            // R-PER decides whether the mutated value is legal at all (extensible constraint) or not
            let mut enc = Enc::new(u, Deviations::default());
            let legal = enc.encode_def(e.module, &e.def, &v).is_ok() && utf8_sizes_ok(u, e.module, &Type::Ref(e.def.clone()), &v, 0);
            if legal != viol.extensible {
                // e.g. a freshly generated list element of a type without representable values
                ctx.rep.hist("outcomes", if legal { "mutation-legal-per-reference-model" } else { "mutation-invalid-elsewhere" });
                continue;
            }
            let mut w = UperWriter::default();
            let r = guarded(|| w.write(&t));
            let wj = |extra: Value| wit(u, e, &v, json!({"violated": viol.what, "extensible": viol.extensible, "detail": extra}));
            match r {
                Ok(Err(ref err)) if kind_name(err) == "ExtensionFieldsInconsistent" && ctx.known_classes.contains("first-addition-absent") => {
                    // the mutation turned a DEFAULT addition into a present one behind an absent first addition: recorded under C02
                    ctx.rep.hist("outcomes", "masked-by-known-class:first-addition-absent");
                    continue;
                }
                Err(p) => ctx.rep.violation(&format!("c06:{}:write:{}", viol.what, p.signature()), wj(json!(null))),
                Ok(Err(err)) => {
                    let kind = kind_name(&err);
                    if viol.extensible {
                        // freshly generated list elements may be of a type whose every value asn1rs refuses (recorded C02 class)
                        let fs = feature_sig(u, e, &v);
                        if let Some(why) = recorded_refusal(ctx, u, e, &v, &fs, &kind) {
                            ctx.rep.hist("outcomes", &format!("masked-by-{}", why));
                            continue;
                        }
                        ctx.rep.violation(&format!("c06:{}:extensible-constraint-but-writer-refuses:{}", viol.what, kind), wj(json!({"error": format!("{}", err)})));
                    } else if !["ValueNotInRange", "SizeNotInRange", "InvalidString", "InvalidChoiceIndex"].contains(&kind.as_str()) {
                        ctx.rep.violation(&format!("c06:{}:rejected-with-unexpected-error:{}", viol.what, kind), wj(json!({"error": format!("{}", err)})));
                    } else {
                        ctx.rep.hist("outcomes", &format!("rejected:{}:{}", viol.what, kind));
                    }
                }
                Ok(Ok(())) => {
                    let bytes = w.byte_content().to_vec();
                    let bit_len = w.bit_len();
                    if !viol.extensible {
                        // what do the emitted bits decode to?
                        let decoded = match decode_spy::<T>(&bytes, bit_len) {
                            Ok((Ok(t2), _, _, _)) => {
                                if t2 == t {
                                    "the same value".to_string()
                                } else {
                                    format!("a different value: {}", Extractor::extract(u, ctx.set_order, e.module, &e.def, &t2).map(|b| b.short()).unwrap_or_default())
                                }
                            }
                            Ok((Err(err), _, _, _)) => format!("error {}", kind_name(&err)),
                            Err(p) => format!("panic {}", p.msg),
                        };
                        ctx.rep.violation(&format!("c06:{}:accepted-although-outside-a-non-extensible-constraint", viol.what), wj(json!({"uper": hex(&bytes).chars().take(200).collect::<String>(), "bits_decode_to": decoded})));
                    } else {
                        // extension form: must be X.691 (or a recorded deviation of another class) and round-trip
                        let fs = feature_sig(u, e, &v);
                        if round_trip_checks::<T>(ctx, u, e, &v, &t, &bytes, bit_len, &fs, "c06") {
                            ctx.rep.hist("outcomes", &format!("extension-form-round-trips:{}", viol.what));
                        }
                        let mut enc = Enc::new(u, Deviations::default());
                        if let Ok(e0) = enc.encode_def(e.module, &e.def, &v) {
                            let got = bytes_to_bools(&bytes, bit_len);
                            if got != e0.bits {
                                let mut dev = Deviations::default();
                                for c in &enc.classes {
                                    if ctx.known_classes.contains(*c) {
                                        dev.set(c, true);
                                    }
                                }
                                let matches_dev = matches!(vgen::per::encode_dev(u, e.module, &e.def, &v, &dev), Ok(e1) if e1.bits == got);
                                if !matches_dev {
                                    ctx.rep.violation(&format!("c06:{}:extension-form-differs-from-x691", viol.what), wj(json!({"uper": bitstr_short(&got), "x691": bitstr_short(&e0.bits)})));
                                }
                            }
                        }
                    }
                }
            }
            ctx.rep.hist("violated", viol.what);
            ctx.rep.distinct(hash_val(&v) ^ (e.id as u64) << 40 ^ hash_str(viol.what));
            if k == 0 && e.id % 30 == 0 {
                ctx.rep.sample(json!({"type": e.def, "violated": viol.what, "extensible": viol.extensible, "value": v.short()}));
            }
        }
    }
}

/// CHOICE/ENUMERATED indices cannot be forged through generated types: hand-written adversarial constraints
pub fn c06_adversarial(rep: &mut Report) {
    use asn1rs::descriptor::{choice, common, enumerated};
    #[derive(Debug, PartialEq, Clone)]
    struct Bad(u64);
    impl common::Constraint for Bad {
        const TAG: asn1rs::model::asn::Tag = asn1rs::model::asn::Tag::DEFAULT_ENUMERATED;
    }
    impl enumerated::Constraint for Bad {
        const NAME: &'static str = "Bad";
        const VARIANT_COUNT: u64 = 3;
        const STD_VARIANT_COUNT: u64 = 3;
        fn to_choice_index(&self) -> u64 {
            self.0
        }
        fn from_choice_index(index: u64) -> Option<Self> {
            if index < 3 {
                Some(Bad(index))
            } else {
                None
            }
        }
    }
    #[derive(Debug, PartialEq, Clone)]
    struct BadChoice(u64);
    impl choice::Constraint for BadChoice {
        const NAME: &'static str = "BadChoice";
        const VARIANT_COUNT: u64 = 2;
        const STD_VARIANT_COUNT: u64 = 2;
        fn to_choice_index(&self) -> u64 {
            self.0
        }
        fn write_content<W: Writer>(&self, _writer: &mut W) -> Result<(), W::Error> {
            Ok(())
        }
        fn read_content<R: Reader>(index: u64, _reader: &mut R) -> Result<Option<Self>, R::Error> {
            Ok(if index < 2 { Some(BadChoice(index)) } else { None })
        }
    }
    impl common::Constraint for BadChoice {
        const TAG: asn1rs::model::asn::Tag = asn1rs::model::asn::Tag::DEFAULT_SEQUENCE;
    }
    for idx in [3u64, 4, 64, 65, u64::MAX] {
        rep.eval();
        let mut w = UperWriter::default();
        match guarded(|| w.write_enumerated(&Bad(idx))) {
            Ok(Err(_)) => rep.hist("outcomes", "rejected:enumerated-index"),
            Ok(Ok(())) => rep.violation("c06:enumerated-index:accepted-although-outside-a-non-extensible-constraint", json!({"index": idx})),
            Err(p) => rep.violation(&format!("c06:enumerated-index:write:{}", p.signature()), json!({"index": idx})),
        }
        rep.eval();
        let mut w = UperWriter::default();
        match guarded(|| w.write_choice(&BadChoice(idx.min(u64::MAX)))) {
            Ok(Err(_)) => rep.hist("outcomes", "rejected:choice-index"),
            Ok(Ok(())) => rep.violation("c06:choice-index:accepted-although-outside-a-non-extensible-constraint", json!({"index": idx})),
            Err(p) => rep.violation(&format!("c06:choice-index:write:{}", p.signature()), json!({"index": idx})),
        }
    }
}

// =============================================================================================
// fault inputs (C04, C19): random byte strings and corrupted valid encodings

#[derive(Clone, Debug)]
pub struct FaultInput {
    pub bytes: Vec<u8>,
    pub bit_len: usize,
    pub kind: String,
}

/// valid encodings of boundary-biased values of the type (real writer; R-PER where the writer refuses)
fn base_encodings<T: ZooType>(ctx: &mut ZooCtx, u: &Universe, e: &TypeEntry, n: u64) -> Vec<(Vec<u8>, usize)> {
    let mut out = Vec::new();
    for k in 0..n {
        let v = gen_value(ctx, u, e, k);
        let mut done = false;
        if let Ok(Ok(t)) = guarded(|| Injector::inject::<T>(u, ctx.set_order, e.module, &e.def, &v)) {
            let mut w = UperWriter::default();
            if let Ok(Ok(())) = guarded(|| w.write(&t)) {
                out.push((w.byte_content().to_vec(), w.bit_len()));
                done = true;
            }
        }
        if !done {
            if let Ok((enc, _)) = vgen::per::encode(u, e.module, &e.def, &v) {
                let n = enc.bits.len();
                out.push((enc.to_bytes(), n));
            }
        }
    }
    out
}

/// types without a schema model (corpus): encodings are found by decoding random bytes and re-encoding what decoded
fn base_encodings_schemaless<T: ZooType>(seed: u64, e: &TypeEntry, n: u64) -> Vec<(Vec<u8>, usize)> {
    let mut out = Vec::new();
    for k in 0..n * 20 {
        if out.len() as u64 >= n {
            break;
        }
        let mut rng = Rng::derive(seed, &["schemaless-base"], (e.id as u64) << 24 | k);
        let len = rng.range(1, 48) as usize;
        let mut bytes = rng.bytes(len);
        if k % 3 == 0 {
            // mostly-zero inputs select small lengths and first alternatives
            for b in bytes.iter_mut() {
                if rng.chance(3, 4) {
                    *b = 0;
                }
            }
        }
        if let Ok(Ok(t)) = guarded(|| UperReader::from((&bytes[..], bytes.len() * 8)).read::<T>()) {
            let mut w = UperWriter::default();
            if let Ok(Ok(())) = guarded(|| w.write(&t)) {
                out.push((w.byte_content().to_vec(), w.bit_len()));
            }
        }
    }
    out
}

const LENGTH_PATTERNS: &[&[u8]] = &[&[0x7F], &[0xBF, 0xFF], &[0xC4], &[0xFF], &[0xC1], &[0x80, 0x00], &[0x80], &[0xC0], &[0xFF, 0xFF, 0xFF, 0xFF], &[0x00]];

pub fn fault_input(rng: &mut Rng, bases: &[(Vec<u8>, usize)]) -> FaultInput {
    if bases.is_empty() || rng.chance(1, 4) {
        // random byte string with every declared-length class
        let len = rng.range(0, 64) as usize;
        let mut bytes = rng.bytes(len);
        match rng.below(4) {
            0 => {
                for b in bytes.iter_mut() {
                    if rng.chance(2, 3) {
                        *b = 0
                    }
                }
            }
            1 => {
                for b in bytes.iter_mut() {
                    if rng.chance(2, 3) {
                        *b = 0xFF
                    }
                }
            }
            _ => {}
        }
        let total = len * 8;
        let bit_len = match rng.below(7) {
            0 => 0,
            1 => 1.min(total),
            2 => 7.min(total),
            3 => 8.min(total),
            4 => total.saturating_sub(1),
            5 => total,
            _ => rng.range(0, total as u64) as usize,
        };
        return FaultInput { bytes, bit_len, kind: "random".into() };
    }
    let (mut bytes, mut bit_len) = rng.pick(bases).clone();
    let nf = 1 + rng.below(3);
    let mut kinds: Vec<&'static str> = Vec::new();
    for _ in 0..nf {
        match rng.below(9) {
            0 => {
                if bit_len > 0 {
                    bit_len = rng.below(bit_len as u64) as usize;
                    if rng.bool() {
                        bytes.truncate((bit_len + 7) / 8);
                    }
                }
                kinds.push("truncate");
            }
            1 => {
                if bit_len > 0 {
                    let b = rng.below(bit_len as u64) as usize;
                    bytes[b / 8] ^= 0x80 >> (b % 8);
                }
                kinds.push("flip");
            }
            2 => {
                let pos = rng.range(0, bytes.len() as u64) as usize;
                let val = *rng.pick(&[0x00u8, 0xFF, 0x7F, 0x80, 0xBF, 0xC4, 0x01]);
                bytes.insert(pos, val);
                bit_len += 8;
                kinds.push("insert");
            }
            3 => {
                if !bytes.is_empty() {
                    let pos = rng.below(bytes.len() as u64) as usize;
                    bytes.remove(pos);
                    bit_len = bit_len.saturating_sub(8);
                }
                kinds.push("delete");
            }
            4 => {
                if !bytes.is_empty() {
                    let pat = *rng.pick(LENGTH_PATTERNS);
                    // early positions are where the outer length determinants live
                    let pos = if rng.bool() { rng.below(bytes.len().min(4) as u64) as usize } else { rng.below(bytes.len() as u64) as usize };
                    for (i, b) in pat.iter().enumerate() {
                        if pos + i < bytes.len() {
                            bytes[pos + i] = *b;
                        }
                    }
                }
                kinds.push("length-pattern");
            }
            5 => {
                // garbage behind the declared end: an over-read is physically possible
                let n = rng.range(1, 16) as usize;
                let fill = *rng.pick(&[0xFFu8, 0x00, 0xAA]);
                bytes.extend(std::iter::repeat(fill).take(n));
                kinds.push("garbage-behind-declared-end");
            }
            6 => {
                if bit_len > 0 {
                    let at = rng.below(bit_len as u64) as usize;
                    let n = rng.range(1, 24) as usize;
                    let ones = rng.bool();
                    for b in at..(at + n).min(bytes.len() * 8) {
                        if ones {
                            bytes[b / 8] |= 0x80 >> (b % 8);
                        } else {
                            bytes[b / 8] &= !(0x80 >> (b % 8));
                        }
                    }
                }
                kinds.push("unaligned-run");
            }
            7 => {
                if bytes.len() >= 2 {
                    let a = rng.below(bytes.len() as u64) as usize;
                    let b = rng.range(a as u64, bytes.len() as u64) as usize;
                    let piece: Vec<u8> = bytes[a..b].to_vec();
                    let pos = rng.range(0, bytes.len() as u64) as usize;
                    bit_len += piece.len() * 8;
                    for (i, x) in piece.into_iter().enumerate() {
                        bytes.insert(pos + i, x);
                    }
                }
                kinds.push("splice");
            }
            _ => {
                // shift the whole message by 1..7 bits (what a wrong preamble width does)
                let k = rng.range(1, 7) as usize;
                let bits = bytes_to_bools(&bytes, bytes.len() * 8);
                let mut shifted = vec![rng.bool(); k];
                shifted.extend(bits);
                bytes = vgen::bits::bools_to_bytes(&shifted);
                bit_len = (bit_len + k).min(bytes.len() * 8);
                kinds.push("bit-shift");
            }
        }
    }
    if bit_len > bytes.len() * 8 {
        bit_len = bytes.len() * 8;
    }
    kinds.sort();
    kinds.dedup();
    FaultInput { bytes, bit_len, kind: kinds.join("+") }
}

/// can a value of this type be encoded in zero bits? (NULL, single-value INTEGER, one-item ENUMERATED, SIZE(0) strings,
/// and constructions of those)
fn can_be_zero_width(u: &Universe, mi: usize, t: &Type, depth: usize) -> bool {
    if depth > 30 {
        return false;
    }
    let fixed_zero = |size: &Size| matches!(size.bounds(), Some((0, Some(0)))) && !size.ext();
    match t {
        Type::Ref(n) => u.lookup_def(mi, n).map(|(dmi, d)| can_be_zero_width(u, dmi, &d.ty, depth + 1)).unwrap_or(false),
        Type::Boolean => false,
        Type::Null => true,
        Type::Integer { c, .. } => {
            let (root, ext) = vgen::resolve::int_root(c);
            !ext && matches!(root, vgen::resolve::IntRoot::Constrained(a, b) if a == b)
        }
        Type::Enumerated { root, ext } => ext.is_none() && root.len() == 1,
        Type::BitString { size, .. } | Type::OctetString { size } | Type::CharString { size, .. } => fixed_zero(size),
        Type::Sequence(c) | Type::Set(c) => c.ext.is_none() && c.root.iter().all(|comp| matches!(comp.presence, Presence::Mandatory) && can_be_zero_width(u, mi, &comp.ty, depth + 1)),
        Type::SequenceOf { elem, size } | Type::SetOf { elem, size } => match size.bounds() {
            Some((lb, Some(ub))) if lb == ub && !size.ext() => lb == 0 || can_be_zero_width(u, mi, elem, depth + 1),
            _ => false,
        },
        Type::Choice { root, ext } => ext.is_none() && root.len() == 1 && can_be_zero_width(u, mi, &root[0].ty, depth + 1),
    }
}

/// does the type contain a list whose elements may take no bits at all? Then the number of elements a decoder has to
/// materialise is bounded by the length determinants only (up to 64K per octet of input), not by the remaining input.
pub fn has_zero_width_list_elements(u: &Universe, mi: usize, t: &Type, depth: usize) -> bool {
    if depth > 30 {
        return false;
    }
    match t {
        Type::Ref(n) => u.lookup_def(mi, n).map(|(dmi, d)| has_zero_width_list_elements(u, dmi, &d.ty, depth + 1)).unwrap_or(false),
        Type::Sequence(c) | Type::Set(c) => c.all().any(|comp| has_zero_width_list_elements(u, mi, &comp.ty, depth + 1)),
        Type::SequenceOf { elem, .. } | Type::SetOf { elem, .. } => can_be_zero_width(u, mi, elem, 0) || has_zero_width_list_elements(u, mi, elem, depth + 1),
        Type::Choice { root, ext } => root.iter().chain(ext.iter().flatten()).any(|a| has_zero_width_list_elements(u, mi, &a.ty, depth + 1)),
        _ => false,
    }
}

pub const ALLOC_BASE: usize = 64 << 20;
/// per octet of input when list elements may be zero bits wide: 64K elements per length octet, a generous 1 KiB each
pub const ALLOC_PER_BYTE_ZERO_WIDTH: usize = 65536 * 1024;
pub const ALLOC_PER_BYTE: usize = 4096;

fn c04_uper_case<T: ZooType>(rep: &mut Report, e: &TypeEntry, inp: &FaultInput, zero_width_lists: bool) {
    rep.eval();
    let w_ = |extra: Value| json!({"type": e.def, "type_id": e.id, "family": e.family, "reader": "uper", "fault": inp.kind, "input_hex": hex(&inp.bytes), "bit_len": inp.bit_len, "detail": extra});
    let mut reader = UperReader::from(SpyBits::new(&inp.bytes, inp.bit_len));
    crate::alloc::arm();
    let res = guarded(|| reader.read::<T>().map(|t| drop(t)));
    let st = crate::alloc::disarm();
    // a list of zero-width elements (SEQUENCE OF NULL ...) takes no input per element: what a decoder must materialise is
    // bounded by the length determinants only
    let limit = ALLOC_BASE + if zero_width_lists { ALLOC_PER_BYTE_ZERO_WIDTH } else { ALLOC_PER_BYTE } * inp.bytes.len();
    if zero_width_lists {
        rep.hist("alloc-bound", "zero-width-list-elements:64K-elements-per-octet");
    } else {
        rep.hist("alloc-bound", "4096-per-octet");
    }
    if st.max_request > limit || st.peak_live > limit {
        rep.violation("c04:uper:allocation-not-bounded-by-input", w_(json!({"max_request": st.max_request, "peak_live": st.peak_live, "limit": limit})));
    }
    rep.hist("alloc-peak", &format!("<=2^{}", (st.peak_live.max(1) as f64).log2().ceil() as u32));
    // accessors stay callable after every outcome
    let acc = guarded(|| reader.bits_remaining());
    let bits = reader.into_bits();
    use asn1rs::rw::ScopedBitRead;
    let acc2 = guarded(|| (bits.pos(), bits.len(), bits.remaining()));
    match (&acc, &acc2) {
        (Err(p), _) | (_, Err(p)) => rep.violation(&format!("c04:uper:accessor-panics-after-read:{}", p.signature()), w_(json!({"read_result_ok": matches!(res, Ok(Ok(())))}))),
        (Ok(rem), Ok((pos, len, rem2))) => {
            if rem != rem2 || (pos <= len && pos + rem != *len) {
                rep.violation("c04:uper:accessors-inconsistent", w_(json!({"pos": pos, "len": len, "remaining": rem})));
            }
        }
    }
    match res {
        Err(p) => {
            rep.violation(&format!("c04:uper:panic:{}", p.signature()), w_(json!({"message": p.msg})));
            rep.hist("outcomes", "panic");
        }
        Ok(Ok(())) => {
            rep.hist("outcomes", "Ok");
            let pos = bits.pos();
            if bits.overreads > 0 || pos > inp.bit_len || bits.max_touched > inp.bit_len {
                rep.violation("c04:uper:ok-after-reading-beyond-the-declared-length", w_(json!({"pos": pos, "max_touched": bits.max_touched, "overreads": bits.overreads})));
            }
            rep.distinct(hash_str(&e.def) ^ (pos as u64) << 20 ^ 0xC04);
        }
        Ok(Err(err)) => {
            let k = kind_name(&err);
            rep.hist("outcomes", &format!("Err:{}", k));
            rep.distinct(hash_str(&e.def) ^ hash_str(&k) ^ (bits.pos() as u64) << 20);
        }
    }
    rep.hist("faults", &inp.kind.split('+').next().unwrap_or("").to_string());
}

fn c04_proto_case<T: ZooType>(rep: &mut Report, e: &TypeEntry, inp: &FaultInput) {
    use asn1rs::rw::ProtobufReader;
    rep.eval();
    let w_ = |extra: Value| json!({"type": e.def, "type_id": e.id, "family": e.family, "reader": "protobuf", "fault": inp.kind, "input_hex": hex(&inp.bytes), "detail": extra});
    crate::alloc::arm();
    let res = guarded(|| {
        let mut reader = ProtobufReader::from(&inp.bytes[..]);
        reader.read::<T>().map(|t| drop(t)).map_err(|e| format!("{:?}", e))
    });
    let st = crate::alloc::disarm();
    let limit = ALLOC_BASE + ALLOC_PER_BYTE * inp.bytes.len();
    // the errors of this reader capture resolved backtraces, whose symboliser fills a process-wide cache: judged are
    // the largest single request and the peak of what was released again before the call returned
    if st.max_request > limit || st.transient_peak() > limit {
        rep.violation("c04:protobuf:allocation-not-bounded-by-input", w_(json!({"max_request": st.max_request, "peak_live": st.peak_live, "live_at_end": st.live_at_end, "limit": limit})));
    }
    match res {
        Err(p) => {
            rep.violation(&format!("c04:protobuf:panic:{}", p.signature()), w_(json!({"message": p.msg})));
            rep.hist("outcomes-protobuf", "panic");
        }
        Ok(Ok(())) => rep.hist("outcomes-protobuf", "Ok"),
        Ok(Err(err)) => {
            let k: String = err.split(|c: char| !c.is_alphanumeric()).next().unwrap_or("").to_string();
            rep.hist("outcomes-protobuf", &format!("Err:{}", k));
        }
    }
}

/// protobuf-specific faults: the length of a length-delimited field (top level or one level down) is replaced by a
/// hostile varint - around 2^64, 2^63, 2^32, just beyond the input, zero
fn proto_length_fault(rng: &mut Rng, base: &[u8]) -> Option<Vec<u8>> {
    // offsets (start, end) of the length varints of length-delimited fields
    fn scan(b: &[u8], from: usize, to: usize, depth: usize, out: &mut Vec<(usize, usize)>) {
        let mut i = from;
        while i < to {
            let mut key = 0u64;
            let mut sh = 0;
            loop {
                let Some(x) = b.get(i) else { return };
                i += 1;
                key |= ((*x & 0x7F) as u64) << sh;
                sh += 7;
                if x & 0x80 == 0 || sh > 63 {
                    break;
                }
            }
            match key & 7 {
                0 => {
                    while let Some(x) = b.get(i) {
                        i += 1;
                        if x & 0x80 == 0 {
                            break;
                        }
                    }
                }
                1 => i += 8,
                5 => i += 4,
                2 => {
                    let start = i;
                    let mut n = 0u64;
                    let mut sh = 0;
                    loop {
                        let Some(x) = b.get(i) else { return };
                        i += 1;
                        n |= ((*x & 0x7F) as u64) << sh;
                        sh += 7;
                        if x & 0x80 == 0 || sh > 63 {
                            break;
                        }
                    }
                    out.push((start, i));
                    let end = i.saturating_add(n as usize).min(to);
                    if depth < 2 {
                        scan(b, i, end, depth + 1, out);
                    }
                    i = end;
                }
                _ => return,
            }
        }
    }
    let mut spots = Vec::new();
    scan(base, 0, base.len(), 0, &mut spots);
    if spots.is_empty() {
        return None;
    }
    let (s, e) = *rng.pick(&spots);
    let k = rng.range(0, 40);
    let value: u64 = match rng.below(8) {
        0 => u64::MAX - k,
        1 => (1u64 << 63) + k,
        2 => (1u64 << 63) - 1 - k,
        3 => (1u64 << 32) + k,
        4 => (base.len() - e) as u64 + 1 + k,
        5 => 0,
        6 => u64::MAX,
        _ => (1u64 << 62) + k,
    };
    let mut varint = Vec::new();
    let mut v = value;
    loop {
        let b = (v & 0x7F) as u8;
        v >>= 7;
        if v == 0 {
            varint.push(b);
            break;
        }
        varint.push(b | 0x80);
    }
    let mut out = base[..s].to_vec();
    out.extend(varint);
    out.extend(&base[e..]);
    Some(out)
}

fn proto_bases<T: ZooType>(uper_bases: &[(Vec<u8>, usize)]) -> Vec<(Vec<u8>, usize)> {
    use asn1rs::rw::ProtobufWriter;
    let mut out = Vec::new();
    for (bytes, bit_len) in uper_bases {
        if let Ok(Ok(t)) = guarded(|| UperReader::from((&bytes[..], *bit_len)).read::<T>()) {
            let mut w = ProtobufWriter::default();
            if let Ok(Ok(())) = guarded(|| w.write(&t)) {
                let b = w.into_bytes_vec();
                let n = b.len() * 8;
                out.push((b, n));
            }
        }
    }
    out
}

fn c04_inputs_per_type(ctx: &ZooCtx) -> u64 {
    if ctx.tier == "quick" {
        160
    } else {
        6000
    }
}

/// asn1rs's protobuf and DER errors capture a resolved backtrace; the first capture parses the debug information of
/// the whole binary (hundreds of MB, kept in a process-wide cache). Do that once, before the allocator is armed
/// and before children are forked, so that the allocation monitor measures the decoder and not the symboliser.
pub fn prewarm_backtrace_cache() {
    static ONCE: std::sync::Once = std::sync::Once::new();
    ONCE.call_once(|| {
        let _ = asn1rs::protocol::protobuf::Error::invalid_format(0);
    });
}

fn c04_run<T: ZooType>(ctx: &mut ZooCtx, e: &TypeEntry, bases: Vec<(Vec<u8>, usize)>) {
    prewarm_backtrace_cache();
    // types without a schema model (corpus) are judged with the strict bound
    let zero_width_lists = ctx.universe(e).map(|u| has_zero_width_list_elements(u, e.module, &Type::Ref(e.def.clone()), 0)).unwrap_or(false);
    let pbases = proto_bases::<T>(&bases);
    ctx.rep.hist("bases", if bases.is_empty() { "uper:none" } else { "uper:some" });
    ctx.rep.hist("bases", if pbases.is_empty() { "protobuf:none" } else { "protobuf:some" });
    let n = c04_inputs_per_type(ctx);
    let nproto = n / 4;
    let seed = ctx.seed;
    let input_for = |i: u64| -> (bool, FaultInput) {
        let mut rng = Rng::derive(seed, &["C04", "input"], (e.id as u64) << 28 | i);
        if i < n {
            (false, fault_input(&mut rng, &bases))
        } else {
            // every third protobuf input: a hostile length in an otherwise valid message
            if i % 3 == 0 && !pbases.is_empty() {
                let base = rng.pick(&pbases).0.clone();
                if let Some(bytes) = proto_length_fault(&mut rng, &base) {
                    let n = bytes.len() * 8;
                    return (true, FaultInput { bytes, bit_len: n, kind: "hostile-length".into() });
                }
            }
            let mut inp = fault_input(&mut rng, &pbases);
            // the protobuf reader takes whole bytes
            inp.bytes.truncate((inp.bit_len + 7) / 8);
            (true, inp)
        }
    };
    let cfg = crate::sandbox::SandboxCfg { batch: 4000, batch_timeout: std::time::Duration::from_secs(240), case_timeout: std::time::Duration::from_secs(20), ..Default::default() };
    let mut rep = std::mem::replace(&mut ctx.rep, Report::new("", "", 0, 0, ""));
    crate::sandbox::run_batches(
        &mut rep,
        n + nproto,
        &cfg,
        |r, i| {
            let (proto, inp) = input_for(i);
            if proto {
                c04_proto_case::<T>(r, e, &inp)
            } else {
                c04_uper_case::<T>(r, e, &inp, zero_width_lists)
            }
        },
        |i| {
            let (proto, inp) = input_for(i);
            (
                format!("c04:{}", if proto { "protobuf" } else { "uper" }),
                json!({"type": e.def, "family": e.family, "reader": if proto { "protobuf" } else { "uper" }, "fault": inp.kind, "input_hex": hex(&inp.bytes), "bit_len": inp.bit_len}),
            )
        },
    );
    ctx.rep = rep;
}

fn c04_single<T: ZooType>(ctx: &mut ZooCtx, u: &Universe, e: &TypeEntry) {
    let nb = if ctx.tier == "quick" { 6 } else { 40 };
    let bases = base_encodings::<T>(ctx, u, e, nb);
    c04_run::<T>(ctx, e, bases);
}

fn c04_schemaless<T: ZooType>(ctx: &mut ZooCtx, e: &TypeEntry) {
    let nb = if ctx.tier == "quick" { 6 } else { 40 };
    let bases = base_encodings_schemaless::<T>(ctx.seed, e, nb);
    c04_run::<T>(ctx, e, bases);
}

/// DER reader: the primitives it implements, on every input of <= 2 octets and random longer ones
pub fn c04_der(rep: &mut Report, seed: u64, tier: &str) {
    prewarm_backtrace_cache();
    use asn1rs::descriptor::{boolean, common, numbers, ReadableType};
    use asn1rs::protocol::basic::DER;
    struct C;
    impl common::Constraint for C {
        const TAG: asn1rs::model::asn::Tag = asn1rs::model::asn::Tag::DEFAULT_INTEGER;
    }
    impl numbers::Constraint<i64> for C {}
    impl numbers::Constraint<u64> for C {}
    impl numbers::Constraint<u8> for C {}
    struct B;
    impl common::Constraint for B {
        const TAG: asn1rs::model::asn::Tag = asn1rs::model::asn::Tag::DEFAULT_BOOLEAN;
    }
    impl boolean::Constraint for B {}
    let mut run = |bytes: &[u8], rep: &mut Report| {
        rep.eval();
        for (name, r) in [
            ("i64", guarded(|| numbers::Integer::<i64, C>::read_value(&mut DER::reader(bytes)).map(|_| ()).map_err(|e| format!("{:?}", e)))),
            ("u64", guarded(|| numbers::Integer::<u64, C>::read_value(&mut DER::reader(bytes)).map(|_| ()).map_err(|e| format!("{:?}", e)))),
            ("u8", guarded(|| numbers::Integer::<u8, C>::read_value(&mut DER::reader(bytes)).map(|_| ()).map_err(|e| format!("{:?}", e)))),
            ("boolean", guarded(|| boolean::Boolean::<B>::read_value(&mut DER::reader(bytes)).map(|_| ()).map_err(|e| format!("{:?}", e)))),
        ] {
            match r {
                Err(p) => rep.violation(&format!("c04:der:{}:panic:{}", name, p.signature()), json!({"reader": "der", "input_hex": hex(bytes)})),
                Ok(Ok(())) => rep.hist("outcomes-der", "Ok"),
                Ok(Err(_)) => rep.hist("outcomes-der", "Err"),
            }
        }
        {
            use asn1rs::protocol::basic::BasicRead;
            let raw = guarded(|| {
                let mut s = bytes;
                let _ = s.read_identifier();
                let l = s.read_length();
                let _ = s.read_integer_i64(l.as_ref().map(|l| *l as u32).unwrap_or(3));
                let _ = s.read_integer_u64(9);
                let _ = s.read_boolean();
            });
            if let Err(p) = raw {
                rep.violation(&format!("c04:der:raw:panic:{}", p.signature()), json!({"reader": "der", "input_hex": hex(bytes)}));
            }
        }
    };
    run(&[], rep);
    for a in 0..=255u8 {
        run(&[a], rep);
        for b in 0..=255u8 {
            run(&[a, b], rep);
        }
    }
    let n = if tier == "quick" { 20_000 } else { 1_000_000 };
    for i in 0..n {
        let mut rng = Rng::derive(seed, &["C04", "der"], i);
        let len = rng.range(3, 14) as usize;
        let mut bytes = rng.bytes(len);
        // valid identifier + a length octet near the interesting values
        if rng.chance(2, 3) {
            bytes[0] = *rng.pick(&[0x02u8, 0x01, 0x0A, 0x82]);
            bytes[1] = *rng.pick(&[0x00u8, 0x01, 0x02, 0x07, 0x08, 0x09, 0x7F, 0x80, 0x81, 0x82, 0x84, 0x88, 0x89, 0xFF]);
        }
        run(&bytes, rep);
    }
}

// =============================================================================================
// C19: outcome table of the fault inputs (compared between the two feature builds by the orchestrator)

/// run one input through the reader of this build and append its outcome line; returns the decoded value
fn c19_record<T: ZooType>(ctx: &mut ZooCtx, e: &TypeEntry, i: u64, inp: &FaultInput) -> Option<T> {
    ctx.rep.eval();
    let mut reader = UperReader::from((&inp.bytes[..], inp.bit_len));
    let res = guarded(|| reader.read::<T>());
    let consumed = guarded(|| inp.bit_len as i64 - reader.bits_remaining() as i64).unwrap_or(i64::MIN);
    let mut value = None;
    let outcome = match res {
        Err(p) => format!("panic:{}", p.signature()),
        Ok(Ok(t)) => {
            ctx.rep.hist("outcomes", "Ok");
            let o = format!("Ok:{:016x}", hash_str(&format!("{:?}", t)));
            value = Some(t);
            o
        }
        Ok(Err(err)) => {
            ctx.rep.hist("outcomes", &format!("Err:{}", kind_name(&err)));
            format!("Err:{}", format!("{:?}", err.kind()).replace(' ', "").chars().take(160).collect::<String>())
        }
    };
    let outcome: String = outcome.chars().map(|c| if c.is_whitespace() { '_' } else { c }).collect();
    ctx.rep.distinct(hash_str(&outcome) ^ hash_str(&e.def) ^ (consumed as u64) << 24);
    let h = hex(&inp.bytes);
    ctx.table.push(format!("{} {} {} {} {} {} {}", e.id, e.def, i, inp.bit_len, if h.is_empty() { "-".to_string() } else if h.len() > 600 { format!("#{:016x}", hash_str(&h)) } else { h }, consumed, outcome));
    value
}

fn c19_table<T: ZooType>(ctx: &mut ZooCtx, e: &TypeEntry, bases: Vec<(Vec<u8>, usize)>) {
    let n = if ctx.tier == "quick" { 120 } else { 3000 };
    for i in 0..n {
        let mut rng = Rng::derive(ctx.seed, &["C19", "input"], (e.id as u64) << 28 | i);
        // every fourth input is a valid encoding
        let inp = if i % 4 == 0 && !bases.is_empty() {
            let (b, l) = rng.pick(&bases).clone();
            FaultInput { bytes: b, bit_len: l, kind: "valid".into() }
        } else {
            fault_input(&mut rng, &bases)
        };
        let _ = c19_record::<T>(ctx, e, i, &inp);
    }
}

fn c19_single<T: ZooType>(ctx: &mut ZooCtx, u: &Universe, e: &TypeEntry) {
    let bases = base_encodings::<T>(ctx, u, e, 6);
    c19_table::<T>(ctx, e, bases);
}

/// corpus types have no schema model: valid encodings are found by decoding random bytes and re-encoding what
/// decoded. The probes themselves are table lines, so a decoder difference shows as a differing line before the
/// inputs derived from it can diverge.
fn c19_schemaless<T: ZooType>(ctx: &mut ZooCtx, e: &TypeEntry) {
    let mut bases = Vec::new();
    for k in 0..120u64 {
        if bases.len() >= 6 {
            break;
        }
        let mut rng = Rng::derive(ctx.seed, &["schemaless-base"], (e.id as u64) << 24 | k);
        let len = rng.range(1, 48) as usize;
        let mut bytes = rng.bytes(len);
        if k % 3 == 0 {
            for b in bytes.iter_mut() {
                if rng.chance(3, 4) {
                    *b = 0;
                }
            }
        }
        let inp = FaultInput { bit_len: bytes.len() * 8, bytes, kind: "probe".into() };
        if let Some(t) = c19_record::<T>(ctx, e, 1_000_000 + k, &inp) {
            let mut w = UperWriter::default();
            if let Ok(Ok(())) = guarded(|| w.write(&t)) {
                bases.push((w.byte_content().to_vec(), w.bit_len()));
            }
        }
    }
    c19_table::<T>(ctx, e, bases);
}

// =============================================================================================
// C17: protobuf round trip up to proto3 default equivalence

/// the value Rust's `Default` gives for the generated type of `t` (what asn1rs's ProtobufEq compares an absent
/// optional with): zero, false, empty, first item, first alternative, components default / absent
fn rust_default(u: &Universe, mi: usize, t: &Type, depth: usize) -> Val {
    if depth > 30 {
        return Val::Null;
    }
    match t {
        Type::Ref(n) => match u.lookup_def(mi, n) {
            Some((dmi, d)) => rust_default(u, dmi, &d.ty, depth + 1),
            None => Val::Null,
        },
        Type::Boolean => Val::Bool(false),
        Type::Null => Val::Null,
        Type::Integer { .. } => Val::Int(0),
        Type::Enumerated { .. } => Val::Enum(0),
        Type::BitString { .. } => Val::Bits(vec![]),
        Type::OctetString { .. } => Val::Bytes(vec![]),
        Type::CharString { .. } => Val::Str(String::new()),
        Type::Sequence(c) | Type::Set(c) => Val::Seq(
            c.all()
                .enumerate()
                .map(|(i, comp)| {
                    let is_add = i >= c.root.len();
                    match comp.presence {
                        Presence::Optional => None,
                        Presence::Mandatory if is_add => None,
                        _ => Some(rust_default(u, mi, &comp.ty, depth + 1)),
                    }
                })
                .collect(),
        ),
        Type::SequenceOf { .. } | Type::SetOf { .. } => Val::List(vec![]),
        Type::Choice { root, .. } => Val::Choice(0, Box::new(root.first().map(|a| rust_default(u, mi, &a.ty, depth + 1)).unwrap_or(Val::Null))),
    }
}

/// protobuf equality of the property: identical, except that an absent optional and a present default-ish value
/// are indistinguishable. Returns a short class of the first difference.
fn proto_eq(u: &Universe, mi: usize, t: &Type, a: &Val, b: &Val, depth: usize) -> Option<String> {
    if depth > 60 {
        return None;
    }
    match (t, a, b) {
        (Type::Ref(n), _, _) => match u.lookup_def(mi, n) {
            Some((dmi, d)) => proto_eq(u, dmi, &d.ty, a, b, depth + 1),
            None => None,
        },
        (Type::Sequence(c), Val::Seq(fa), Val::Seq(fb)) | (Type::Set(c), Val::Seq(fa), Val::Seq(fb)) => {
            for (i, comp) in c.all().enumerate() {
                let optional = matches!(comp.presence, Presence::Optional) || (i >= c.root.len() && matches!(comp.presence, Presence::Mandatory));
                let kind = resolve_kind(u, mi, &comp.ty).map(|t| t.kind_name()).unwrap_or("?");
                match (fa.get(i).and_then(|x| x.as_ref()), fb.get(i).and_then(|x| x.as_ref())) {
                    (Some(x), Some(y)) => {
                        if let Some(d) = proto_eq(u, mi, &comp.ty, x, y, depth + 1) {
                            return Some(d);
                        }
                    }
                    (None, None) => {}
                    (Some(x), None) | (None, Some(x)) if optional => {
                        if *x != rust_default(u, mi, &comp.ty, 0) {
                            return Some(format!("optional-{}:{}", kind, if fa.get(i).and_then(|x| x.as_ref()).is_some() { "present-nondefault->absent" } else { "absent->present-nondefault" }));
                        }
                    }
                    _ => return Some(format!("component-{}:presence", kind)),
                }
            }
            None
        }
        (Type::SequenceOf { elem, .. }, Val::List(la), Val::List(lb)) | (Type::SetOf { elem, .. }, Val::List(la), Val::List(lb)) => {
            let ek = resolve_kind(u, mi, elem).map(|t| t.kind_name()).unwrap_or("?");
            if la.len() != lb.len() {
                return Some(format!("list-of-{}:length", ek));
            }
            for (x, y) in la.iter().zip(lb.iter()) {
                if let Some(d) = proto_eq(u, mi, elem, x, y, depth + 1) {
                    return Some(format!("list-of-{}>{}", ek, d));
                }
            }
            None
        }
        (Type::Choice { root, ext }, Val::Choice(ia, xa), Val::Choice(ib, xb)) => {
            if ia != ib {
                return Some("choice:alternative".to_string());
            }
            match root.iter().chain(ext.iter().flatten()).nth(*ia) {
                Some(alt) => proto_eq(u, mi, &alt.ty, xa, xb, depth + 1).map(|d| format!("choice>{}", d)),
                None => None,
            }
        }
        _ => {
            if a == b {
                None
            } else {
                Some(format!("{}:value", t.kind_name()))
            }
        }
    }
}

/// schema features that matter for protobuf (used in signatures)
fn proto_features(u: &Universe, mi: usize, t: &Type, out: &mut BTreeSet<&'static str>, depth: usize) {
    if depth > 12 {
        return;
    }
    match t {
        Type::Ref(n) => {
            if let Some((dmi, d)) = u.lookup_def(mi, n) {
                proto_features(u, dmi, &d.ty, out, depth + 1);
            }
        }
        Type::Sequence(c) | Type::Set(c) => {
            for comp in c.all() {
                proto_features(u, mi, &comp.ty, out, depth + 1);
            }
        }
        Type::SequenceOf { elem, .. } | Type::SetOf { elem, .. } => {
            match resolve_kind(u, mi, elem) {
                Some(Type::SequenceOf { .. }) | Some(Type::SetOf { .. }) => {
                    out.insert("list-of-list");
                }
                Some(Type::Null) => {
                    out.insert("list-of-null");
                }
                Some(Type::Choice { .. }) => {
                    out.insert("list-of-choice");
                }
                _ => {}
            }
            proto_features(u, mi, elem, out, depth + 1);
        }
        Type::Choice { root, ext } => {
            for a in root.iter().chain(ext.iter().flatten()) {
                match resolve_kind(u, mi, &a.ty) {
                    Some(Type::SequenceOf { .. }) | Some(Type::SetOf { .. }) => {
                        out.insert("list-in-choice");
                    }
                    Some(Type::Choice { .. }) => {
                        out.insert("choice-in-choice");
                    }
                    Some(Type::Null) => {
                        out.insert("null-in-choice");
                    }
                    _ => {}
                }
                proto_features(u, mi, &a.ty, out, depth + 1);
            }
        }
        _ => {}
    }
}

/// features of the value that have no protobuf representation in asn1rs's mapping (used in signatures)
fn proto_value_features(u: &Universe, mi: usize, t: &Type, v: &Val, out: &mut BTreeSet<&'static str>, depth: usize) {
    if depth > 40 {
        return;
    }
    match (t, v) {
        (Type::Ref(n), _) => {
            if let Some((dmi, d)) = u.lookup_def(mi, n) {
                proto_value_features(u, dmi, &d.ty, v, out, depth + 1);
            }
        }
        (Type::Sequence(c), Val::Seq(f)) | (Type::Set(c), Val::Seq(f)) => {
            for (i, comp) in c.all().enumerate() {
                if let Some(Some(x)) = f.get(i) {
                    proto_value_features(u, mi, &comp.ty, x, out, depth + 1);
                }
            }
        }
        (Type::SequenceOf { elem, .. }, Val::List(l)) | (Type::SetOf { elem, .. }, Val::List(l)) => {
            if matches!(resolve_kind(u, mi, elem), Some(Type::SequenceOf { .. }) | Some(Type::SetOf { .. })) {
                out.insert("list-directly-in-list");
            }
            for x in l.iter().take(64) {
                proto_value_features(u, mi, elem, x, out, depth + 1);
            }
        }
        (Type::Choice { root, ext }, Val::Choice(i, inner)) => {
            if let Some(a) = root.iter().chain(ext.iter().flatten()).nth(*i) {
                if let (Some(Type::SequenceOf { .. }) | Some(Type::SetOf { .. }), Val::List(l)) = (resolve_kind(u, mi, &a.ty), &**inner) {
                    if l.is_empty() {
                        out.insert("empty-list-as-choice-alternative");
                    }
                }
                proto_value_features(u, mi, &a.ty, inner, out, depth + 1);
            }
        }
        _ => {}
    }
}

fn proto_err_kind<E: std::fmt::Debug>(e: &E) -> String {
    format!("{:?}", e).split(|c: char| !c.is_alphanumeric()).next().unwrap_or("").to_string()
}

fn c17_single<T: ZooType>(ctx: &mut ZooCtx, u: &Universe, e: &TypeEntry) {
    use asn1rs::rw::{ProtobufReader, ProtobufWriter};
    prewarm_backtrace_cache();
    let ty = Type::Ref(e.def.clone());
    let mut pf = BTreeSet::new();
    proto_features(u, e.module, &ty, &mut pf, 0);
    let pfs = pf.iter().copied().collect::<Vec<_>>().join("+");
    for k in 0..ctx.values_per_type {
        let v = gen_value(ctx, u, e, k);
        if v.nodes() > 20_000 {
            continue;
        }
        ctx.rep.eval();
        let t: T = match make::<T>(ctx, u, e, &v, "c17") {
            Some(t) => t,
            None => continue,
        };
        let wj = |extra: Value| wit(u, e, &v, json!({"schema_features": pfs, "detail": extra}));
        // parts of the value asn1rs's mapping has no protobuf representation for (recorded findings)
        let vfs = {
            let mut vf = BTreeSet::new();
            proto_value_features(u, e.module, &ty, &v, &mut vf, 0);
            vf.iter().copied().collect::<Vec<_>>().join("+")
        };
        // --- growable back end
        let mut w1 = ProtobufWriter::default();
        let bytes = match guarded(|| w1.write(&t)) {
            Err(p) => {
                ctx.rep.violation(&format!("c17:write:{}", p.signature()), wj(json!(null)));
                continue;
            }
            Ok(Err(err)) => {
                ctx.rep.violation(&format!("c17:writer-refuses:{}:{}", proto_err_kind(&err), pfs), wj(json!(null)));
                continue;
            }
            Ok(Ok(())) => w1.as_bytes().to_vec(),
        };
        if w1.len_written() != bytes.len() {
            ctx.rep.violation("c17:len_written-differs-from-bytes", wj(json!({"len_written": w1.len_written(), "bytes": bytes.len()})));
        }
        // --- fixed-slice back end: roomy, exact, one octet short
        for (room, label) in [(bytes.len() + 16, "roomy"), (bytes.len(), "exact")] {
            let mut buf = vec![0xEEu8; room];
            let r = guarded(|| {
                let mut w2 = ProtobufWriter::from(&mut buf[..]);
                let r = w2.write(&t);
                (r.map_err(|e| proto_err_kind(&e)), w2.as_bytes().to_vec(), w2.len_written())
            });
            match r {
                Err(p) => ctx.rep.violation(&format!("c17:slice-writer:{}:{}", label, p.signature()), wj(json!(null))),
                Ok((Err(k), _, _)) => ctx.rep.violation(&format!("c17:slice-writer-refuses:{}:{}", label, k), wj(json!({"room": room, "needed": bytes.len()}))),
                Ok((Ok(()), b2, n2)) => {
                    if b2 != bytes || n2 != bytes.len() {
                        ctx.rep.violation(&format!("c17:back-ends-differ:{}", label), wj(json!({"vec": hex(&bytes).chars().take(200).collect::<String>(), "slice": hex(&b2).chars().take(200).collect::<String>()})));
                    } else if buf[bytes.len()..].iter().any(|b| *b != 0xEE) {
                        ctx.rep.violation("c17:slice-writer-touched-bytes-behind-the-message", wj(json!(null)));
                    }
                }
            }
        }
        if !bytes.is_empty() {
            let mut buf = vec![0u8; bytes.len() - 1];
            let r = guarded(|| {
                let mut w2 = ProtobufWriter::from(&mut buf[..]);
                w2.write(&t).map_err(|e| proto_err_kind(&e))
            });
            match r {
                Err(p) => ctx.rep.violation(&format!("c17:slice-writer:short:{}", p.signature()), wj(json!(null))),
                Ok(Ok(())) => ctx.rep.violation("c17:slice-writer-accepts-a-buffer-that-is-too-small", wj(json!({"room": bytes.len() - 1}))),
                Ok(Err(_)) => ctx.rep.hist("outcomes", "short-slice-rejected"),
            }
        }
        // --- read back
        let back = guarded(|| ProtobufReader::from(&bytes[..]).read::<T>().map_err(|e| proto_err_kind(&e)));
        match back {
            Err(p) => ctx.rep.violation(&format!("c17:read:{}", p.signature()), wj(json!({"protobuf": hex(&bytes).chars().take(200).collect::<String>()}))),
            Ok(Err(k)) => {
                if vfs.is_empty() {
                    ctx.rep.violation(&format!("c17:own-bytes-rejected:{}:", k), wj(json!({"protobuf": hex(&bytes).chars().take(200).collect::<String>()})))
                } else {
                    ctx.rep.violation(&format!("c17:no-protobuf-representation:{}:own-bytes-rejected", vfs), wj(json!({"error": k, "protobuf": hex(&bytes).chars().take(200).collect::<String>()})))
                }
            }
            Ok(Ok(t2)) => match guarded(|| Extractor::extract(u, ctx.set_order, e.module, &e.def, &t2)) {
                Ok(Ok(v2)) => match proto_eq(u, e.module, &ty, &v, &v2, 0) {
                    None => {
                        ctx.rep.hist("outcomes", if v2 == v { "identical" } else { "protobuf-equal" });
                    }
                    Some(d) if vfs.is_empty() => ctx.rep.violation(&format!("c17:round-trip-differs:{}", d), wj(json!({"protobuf": hex(&bytes).chars().take(200).collect::<String>(), "read_back": v2.short()}))),
                    Some(d) => ctx.rep.violation(&format!("c17:no-protobuf-representation:{}:round-trip-differs", vfs), wj(json!({"difference": d, "protobuf": hex(&bytes).chars().take(200).collect::<String>(), "read_back": v2.short()}))),
                },
                _ => ctx.rep.violation("c17:extractor-failed-on-read-value", wj(json!(null))),
            },
        }
        // owned-vector reader
        if k % 4 == 0 {
            match guarded(|| ProtobufReader::from(bytes.clone()).read::<T>().map_err(|e| proto_err_kind(&e))) {
                Err(p) => ctx.rep.violation(&format!("c17:read-owned:{}", p.signature()), wj(json!(null))),
                Ok(a) => {
                    let b = guarded(|| ProtobufReader::from(&bytes[..]).read::<T>().map_err(|e| proto_err_kind(&e)));
                    if let Ok(b) = b {
                        if a != b {
                            ctx.rep.violation("c17:owned-and-borrowed-reader-differ", wj(json!(null)));
                        }
                    }
                }
            }
        }
        if !bytes.is_empty() && v.nodes() > 1 {
            ctx.rep.distinct(hash_str(&e.def) ^ vgen::rng::hash_bytes(&bytes) ^ (e.id as u64) << 32);
        }
        ctx.rep.hist("kinds", top_kind(u, e));
        for f in &pf {
            ctx.rep.hist("schema-features", f);
        }
        if k == 0 && e.id % 40 == 0 {
            ctx.rep.sample(json!({"type": e.def, "value": v.short(), "protobuf": hex(&bytes).chars().take(120).collect::<String>()}));
        }
    }
}

// =============================================================================================
// C18: protobuf bytes agree with the generated .proto schema

/// the parsed .proto files of one universe
pub struct ProtoSet {
    pub files: Vec<vgen::proto::PFile>,
    /// file index per module index
    pub file_of_module: Vec<usize>,
    pub texts: Vec<String>,
    pub error: Option<String>,
}

impl ProtoSet {
    pub fn from_json(v: &Value, nmodules: usize) -> ProtoSet {
        let mut set = ProtoSet { files: Vec::new(), file_of_module: vec![usize::MAX; nmodules], texts: Vec::new(), error: v["error"].as_str().map(|s| s.to_string()) };
        for f in v["files"].as_array().cloned().unwrap_or_default() {
            let mi = f["module"].as_u64().unwrap_or(0) as usize;
            let name = f["file"].as_str().unwrap_or("").to_string();
            let text = f["text"].as_str().unwrap_or("").to_string();
            match vgen::proto::parse_proto(&name, &text) {
                Ok(pf) => {
                    if mi < nmodules {
                        set.file_of_module[mi] = set.files.len();
                    }
                    set.files.push(pf);
                    set.texts.push(text);
                }
                Err(e) => {
                    set.error = Some(format!("unparsable:{}", e));
                    set.texts.push(text);
                }
            }
        }
        set
    }
}

/// static part, once per universe: the text is valid proto3
pub fn c18_validate(rep: &mut Report, ui: usize, set: &ProtoSet, asn1: &str) {
    rep.eval();
    let w_ = |detail: Value| json!({"universe": ui, "asn1": asn1, "proto": set.texts, "detail": detail});
    if let Some(e) = &set.error {
        let class: String = crate::journal::normalise_msg(e).chars().take(80).collect();
        rep.violation(&format!("c18:proto-text:{}", class), w_(json!({"error": e})));
        return;
    }
    let breaches = vgen::proto::validate(&set.files);
    let mut rules = BTreeSet::new();
    for (rule, detail) in &breaches {
        if rules.insert(rule.clone()) {
            rep.violation(&format!("c18:invalid-proto3:{}", rule), w_(json!({"breach": detail})));
        }
    }
    if breaches.is_empty() {
        rep.hist("proto-files", "valid");
    } else {
        rep.hist("proto-files", "invalid");
    }
    for f in &set.files {
        for d in &f.defs {
            match d {
                vgen::proto::PDef::Message { fields, .. } => {
                    rep.hist("proto-constructs", "message");
                    for fl in fields {
                        rep.hist("proto-constructs", if fl.oneof.is_some() { "oneof-member" } else if fl.repeated { "repeated-field" } else { "singular-field" });
                        rep.hist("proto-field-types", if vgen::proto::SCALARS.contains(&fl.ty.as_str()) { fl.ty.as_str() } else { "named" });
                    }
                }
                vgen::proto::PDef::Enum { .. } => rep.hist("proto-constructs", "enum"),
            }
        }
    }
    rep.distinct(hash_str(&set.texts.join("\n")));
}

fn c18_single<T: ZooType>(ctx: &mut ZooCtx, u: &Universe, e: &TypeEntry) {
    use asn1rs::rw::ProtobufWriter;
    prewarm_backtrace_cache();
    let set = match e.universe.and_then(|ui| ctx.protos.get(&ui)) {
        Some(s) => s.clone(),
        None => {
            ctx.rep.hist("outcomes", "no-proto-for-universe");
            return;
        }
    };
    if set.error.is_some() {
        ctx.rep.hist("outcomes", "proto-text-unusable");
        return;
    }
    if matches!(type_of(u, e), Some(Type::Enumerated { .. })) {
        // a top-level ENUMERATED value is a bare varint, not a message: nothing to parse under the schema
        ctx.rep.hist("outcomes", "skipped:top-level-enumerated");
        return;
    }
    let m = vgen::proto::Matcher { u, files: &set.files, file_of_module: &set.file_of_module };
    let ty = Type::Ref(e.def.clone());
    for k in 0..ctx.values_per_type {
        let v = gen_value(ctx, u, e, k);
        if v.nodes() > 20_000 {
            continue;
        }
        ctx.rep.eval();
        let t: T = match make::<T>(ctx, u, e, &v, "c18") {
            Some(t) => t,
            None => continue,
        };
        let mut w1 = ProtobufWriter::default();
        let bytes = match guarded(|| w1.write(&t)) {
            Ok(Ok(())) => w1.as_bytes().to_vec(),
            _ => {
                ctx.rep.hist("outcomes", "writer-failed(judged-by-C17)");
                continue;
            }
        };
        match m.match_top(e.module, &e.def, &v, &bytes) {
            Ok(()) => {
                ctx.rep.hist("outcomes", "bytes-parse-to-the-value");
                if !bytes.is_empty() && v.nodes() > 1 {
                    ctx.rep.distinct(hash_str(&e.def) ^ vgen::rng::hash_bytes(&bytes) ^ (e.id as u64) << 32);
                }
            }
            Err(d) => {
                let mut vf = BTreeSet::new();
                proto_value_features(u, e.module, &ty, &v, &mut vf, 0);
                // classes carry no variable parts except the component counts of shape mismatches
                let mut core: &str = &d;
                while let Some(rest) = core.strip_prefix("list>") {
                    core = rest; // the same mismatch inside list elements is the same mismatch
                }
                let class: String = if core.starts_with("message-shape") { core.split(':').take(2).collect::<Vec<_>>().join(":") } else { core.to_string() };
                ctx.rep.violation(
                    &format!("c18:bytes-vs-schema:{}", class),
                    wit(u, e, &v, json!({"protobuf": hex(&bytes).chars().take(300).collect::<String>(), "mismatch": d, "value_features": vf.iter().collect::<Vec<_>>(), "proto": set.texts})),
                );
            }
        }
        if k == 0 && e.id % 40 == 0 {
            ctx.rep.sample(json!({"type": e.def, "value": v.short(), "protobuf": hex(&bytes).chars().take(120).collect::<String>()}));
        }
    }
}

// =============================================================================================
// dispatch

pub fn run<T: ZooType>(ctx: &mut ZooCtx, e: &TypeEntry) {
    let u = match ctx.universe(e) {
        Some(u) => u,
        None => return,
    };
    let mode = ctx.mode.clone();
    match (ctx.prop.as_str(), mode) {
        ("C01", Mode::Single) => c01_single::<T>(ctx, u, e),
        ("C01", Mode::HistWrite(n)) => c01_hist_write::<T>(ctx, u, e, n),
        ("C01", Mode::HistRead(n)) => {
            let idx = ctx.hist_read_index();
            c01_hist_read::<T>(ctx, u, e, n, idx)
        }
        ("C02", Mode::Single) => c02_single::<T>(ctx, u, e),
        ("C03", Mode::Single) => c03_single::<T>(ctx, u, e),
        ("C06", Mode::Single) => c06_single::<T>(ctx, u, e),
        ("C04", Mode::Single) => c04_single::<T>(ctx, u, e),
        ("C19", Mode::Single) => c19_single::<T>(ctx, u, e),
        ("C17", Mode::Single) => c17_single::<T>(ctx, u, e),
        ("C18", Mode::Single) => c18_single::<T>(ctx, u, e),
        _ => {}
    }
}

impl<'a> ZooCtx<'a> {
    /// index of the history element being read (advanced by the driver)
    pub fn hist_read_index(&self) -> usize {
        self.hist_cursor
    }
}

pub fn run_schemaless<T: ZooType>(ctx: &mut ZooCtx, e: &TypeEntry) {
    match ctx.prop.as_str() {
        "C04" => c04_schemaless::<T>(ctx, e),
        "C19" => c19_schemaless::<T>(ctx, e),
        _ => {}
    }
}


pub fn rule_text(prop: &str) -> String {
    match prop {
        "C01" => "zoo types (random modules through the real front end + rustc, large-size family, edges, sets, hostile, protobuf edge, compat) x boundary-biased values injected through the Injector: write -> read through UperReader<SpyBits>: value equal (PartialEq and abstract Val via the Extractor), bits consumed == bits written, no read beyond the declared length, writer buffer == ceil(bits/8) with zero padding; histories of k in {2,3,5,8} values of random types written into one writer and read back in order with position == writer boundary. distinct = distinct (type, encoding) with bit_len > 0 and a non-leaf value, plus distinct histories".to_string(),
        "C02" => "profile values of the zoo types: writer bits == R-PER(schema, value) bit for bit, reader(R-PER bits) == value and consumes exactly them; reference self-test decode(encode(v)) == v on every case; class-complete coverage floor over the constraint classes of DESIGN.md section 4. distinct = distinct (type, value) with a non-empty encoding and a non-leaf value".to_string(),
        "C03" => "bounded-exhaustive, seed-independent: every SEQUENCE/SET shape with n <= N components (N = 3 quick, 5 thorough) x {mandatory, OPTIONAL, DEFAULT}^n x extension marker {none, after component i} x all 2^k presence patterns (DEFAULT: default and non-default value); preamble derived from the property statement and compared bit by bit (extension bit, one presence bit per OPTIONAL/DEFAULT root component in order), total length, whole encoding vs R-PER, decode of own bits, decode of the reference bits of every pattern (incl. first addition absent / later present); refusal only as ExtensionFieldsInconsistent for exactly that pattern; plus, below the generated code, hand-written sequence::Constraints whose additions are mandatory (not Option-wrapped, which the compilers never emit): root {M,O}^1..3 x additions {M,O}^1..3 x every presence pattern written through Writer::write_sequence and compared bit for bit with the preamble rule, refusal demanded exactly when the first addition is absent and a later one present (histogram scope-api). distinct = distinct (shape, pattern)".to_string(),
        "C05" => "schema pairs (V1, V2 = V1 + k extension additions / alternatives / enumeration items; additions of 1, 2, 63, 64, 127, 128, 129, 300 octets, OPTIONAL and mandatory, nested extensible), also nested as list element and non-last component; values of either version written with one version followed by a sentinel, read with the other: abstract value == R-PER decoder of the other version, reader position == message end, sentinel intact; unknown CHOICE/ENUMERATED extensions may fail but never yield a value. distinct = distinct (direction, pair, encoding)".to_string(),
        "C06" => "every constrained leaf of generated values (zoo types incl. a dedicated edge family: single-value ranges, negative ranges, fixed/extensible/range sizes of every string and list kind): one violation at a time - INTEGER lb-1, ub+1, +-2^31; SIZE lb-1, 0, ub+1, 2ub; one illegal character at first/middle/last position per alphabet; only values the generated Rust type can hold (Injector->Extractor identity). Non-extensible => Err(ValueNotInRange|SizeNotInRange|InvalidString|InvalidChoiceIndex), Ok is a violation (replay says what the bits decode to); extensible => Ok, round trip, bits == R-PER. CHOICE/ENUMERATED indices through hand-written adversarial descriptor types. distinct = distinct (type, violating value, violated constraint)".to_string(),
        "C04" => "every zoo type x inputs: 1/4 random byte strings (0..64 octets, sparse/dense, declared length in {0,1,7,8,8n-1,8n,random}) and 3/4 valid encodings of boundary values with 1..3 faults from {truncate, bit flip, insert/delete octet, length-determinant patterns 7F/BFFF/C4/FF/C1/8000.. at early positions, garbage behind the declared end, unaligned runs of ones/zeros, splice, shift by 1..7 bits}; UperReader<SpyBits>::read::<T> under the panic journal, the counting allocator (largest request and peak live <= 64 MiB + 4096 x input octets; for types with a list whose elements may be zero bits wide - SEQUENCE OF NULL, of a single-value INTEGER ... - 64 MiB per input octet, because up to 64K such elements per length octet are legitimate) and a forked child with watchdog and RLIMIT_AS (abort, hang); Ok => no read ended beyond the declared length and pos <= declared length; after every outcome bits_remaining()/pos()/len()/remaining() are called: no panic and pos + remaining == len; the same inputs (protobuf encodings with faults, whole octets) through ProtobufReader; the DER reader's number/boolean/raw primitives on all inputs of <= 2 octets and random longer ones. distinct = distinct (type, outcome kind, bits consumed)".to_string(),
        "C17" => "zoo types (random, protobuf-edge: every integer width/sign, NULL, BIT STRING, nested lists, CHOICE in CHOICE, optional everything; edges; sets) x boundary values: ProtobufWriter (growable) -> bytes; fixed-slice writer with a roomy and an exactly sized buffer must produce identical bytes and leave the rest of the buffer untouched, a buffer one octet short must be refused; ProtobufReader (borrowed and owned) -> value -> Extractor; oracle proto_eq on abstract values: identical except OPTIONAL absent == present Rust-default value. distinct = distinct (type, encoding)".to_string(),
        "C18" => "static: the .proto text the real ProtobufDefGenerator emits for every generated module set is parsed by an independent proto3 parser and validated (syntax, package, imports, unique symbols incl. enum values in package scope, identifiers, field numbers 1..2^29-1 unique and outside 19000..19999, unique field and JSON names, no repeated inside oneof, no repeated repeated, first enum value 0, resolvable types). dynamic: for every message type and boundary value the bytes of the real ProtobufWriter are split by an independent wire decoder and matched against the declared schema and the value: field number = position+1, declared scalar type decides how a conforming parser reads the varint (uint32 truncation, zig-zag), oneof numbering, enum numbering, nesting through named messages, repeated for lists, no undeclared field numbers, absent components not on the wire. distinct = distinct (type, encoding) that parsed to the value + distinct .proto texts".to_string(),
        "C19" => "every zoo type x (valid encodings, fault inputs as in C04): outcome (Ok + hash of the Debug rendering of the value | Err + Debug of the ErrorKind | panic signature) and bits consumed, recorded by two builds of the same zoo (default features / descriptive-deserialize-errors) into tables that the orchestrator compares line by line. distinct = distinct (type, outcome, consumed)".to_string(),
        other => format!("zoo monitor {}", other),
    }
}

/// coverage floors and end-of-run bookkeeping
pub fn finish(ctx: &mut ZooCtx) {
    if ctx.prop == "C06" {
        if ctx.rep.shard == 0 {
            c06_adversarial(&mut ctx.rep);
        }
        for cell in ["int:lb-1", "int:ub+1", "size:lb-1", "size:ub+1", "alphabet:first", "alphabet:middle", "alphabet:last"] {
            let n = ctx.rep.hist.get("violated").and_then(|h| h.get(cell)).copied().unwrap_or(0);
            ctx.rep.floor.insert(format!("violated:{}", cell), n);
        }
    }
    if ctx.prop == "C04" {
        if ctx.rep.shard == 0 {
            let (seed, tier) = (ctx.seed, ctx.tier.clone());
            c04_der(&mut ctx.rep, seed, &tier);
        }
        let h = ctx.rep.hist.get("outcomes").cloned().unwrap_or_default();
        let total: u64 = h.values().sum();
        let ok = h.get("Ok").copied().unwrap_or(0);
        // a workload that only ever sees EndOfStream says little: at least 1 % of the inputs must decode
        ctx.rep.floor.insert("uper:share-of-inputs-decoding-ok>=1%".into(), if total > 0 && ok * 100 >= total { ok } else { 0 });
        let hp = ctx.rep.hist.get("outcomes-protobuf").cloned().unwrap_or_default();
        ctx.rep.floor.insert("protobuf:inputs".into(), hp.values().sum());
    }
    if ctx.prop == "C02" {
        for cell in C02_FLOOR {
            let n = ctx.rep.hist.get("constraint-classes").map(|h| h.iter().filter(|(k, _)| k.starts_with(cell)).map(|(_, v)| *v).sum::<u64>()).unwrap_or(0);
            ctx.rep.floor.insert(format!("class:{}", cell), n);
        }
    }
}

pub const C02_FLOOR: &[&str] = &[
    "integer:unconstrained",
    "integer:range-width-1",
    "integer:range-width-2",
    "integer:range-width-3-255",
    "integer:range-width-256",
    "integer:range-width-257-65535",
    "integer:range-width-65536",
    "integer:range-width->65536",
    "integer:range-width->=2^32",
    "integer:range-width->=2^62",
    "integer:semi-constrained",
    "integer:upper-bound-only",
    "integer:ext-out-of-root",
    "enumerated:root-items-",
    "enumerated:addition-index<64",
    "choice:root-alternatives-",
    "choice:addition:open-type-octets-",
    "sequence:additions-1",
    "sequence:additions-2-8",
    "sequence:addition:open-type-octets-<128",
    "sequence:addition:open-type-octets->=128",
    "octetstring:unconstrained",
    "octetstring:fixed",
    "octetstring:range-ub<64K",
    "octetstring:range-ub>=64K",
    "bitstring:unconstrained",
    "bitstring:fixed",
    "bitstring:range-ub<64K",
    "utf8string:",
    "IA5String:",
    "NumericString:",
    "PrintableString:",
    "VisibleString:",
    "list:unconstrained",
    "list:range-ub<64K",
    "list:fixed",
];
