//! Subprocess protocol: cases that may abort the process (allocation failure, stack overflow) or hang
//! run in forked children, in batches. A child that dies names the culprit through a shared page.
use crate::report::Report;
use serde_json::{json, Value};
use std::io::Read;
use std::os::fd::FromRawFd;
use std::time::{Duration, Instant};

pub struct SandboxCfg {
    pub batch: u64,
    /// wall-clock watchdog per batch (firing is inconclusive unless the case reproduces it alone)
    pub batch_timeout: Duration,
    pub case_timeout: Duration,
    /// address-space limit of the children
    pub rlimit_as: u64,
    pub scratch_dir: String,
}

impl Default for SandboxCfg {
    fn default() -> Self {
        SandboxCfg {
            batch: 2000,
            batch_timeout: Duration::from_secs(300),
            case_timeout: Duration::from_secs(20),
            rlimit_as: 8 << 30,
            scratch_dir: "/verif/work/out".into(),
        }
    }
}

enum ChildEnd {
    Done(Report),
    Died { signal: i32, code: i32, at_case: u64, stderr: String },
    Timeout { at_case: u64 },
}

fn run_child<F: FnMut(&mut Report, u64)>(
    template: &Report,
    from: u64,
    to: u64,
    timeout: Duration,
    cfg: &SandboxCfg,
    f: &mut F,
) -> ChildEnd {
    unsafe {
        let page = libc::mmap(
            std::ptr::null_mut(),
            4096,
            libc::PROT_READ | libc::PROT_WRITE,
            libc::MAP_SHARED | libc::MAP_ANONYMOUS,
            -1,
            0,
        ) as *mut u64;
        assert!(page as isize != -1, "mmap failed");
        *page = from;
        let mut fds = [0i32; 2];
        assert_eq!(libc::pipe(fds.as_mut_ptr()), 0);
        let errpath = format!("{}/sandbox-{}.err", cfg.scratch_dir, std::process::id());
        let pid = libc::fork();
        assert!(pid >= 0, "fork failed");
        if pid == 0 {
            // child
            libc::close(fds[0]);
            let lim = libc::rlimit { rlim_cur: cfg.rlimit_as, rlim_max: cfg.rlimit_as };
            libc::setrlimit(libc::RLIMIT_AS, &lim);
            if let Ok(cpath) = std::ffi::CString::new(errpath.clone()) {
                let fd = libc::open(cpath.as_ptr(), libc::O_WRONLY | libc::O_CREAT | libc::O_TRUNC, 0o644);
                if fd >= 0 {
                    libc::dup2(fd, 2);
                }
            }
            let mut rep = Report::new(&template.property, &template.tier, template.seed, template.shard, &template.variant);
            for i in from..to {
                std::ptr::write_volatile(page, i);
                f(&mut rep, i);
            }
            std::ptr::write_volatile(page, to);
            let bytes = serde_json::to_vec(&rep).unwrap_or_default();
            let mut off = 0usize;
            while off < bytes.len() {
                let n = libc::write(fds[1], bytes[off..].as_ptr() as *const libc::c_void, bytes.len() - off);
                if n <= 0 {
                    break;
                }
                off += n as usize;
            }
            libc::close(fds[1]);
            libc::_exit(0);
        }
        // parent
        libc::close(fds[1]);
        // read in a thread-less way: non-blocking poll loop
        let flags = libc::fcntl(fds[0], libc::F_GETFL);
        libc::fcntl(fds[0], libc::F_SETFL, flags | libc::O_NONBLOCK);
        let mut file = std::fs::File::from_raw_fd(fds[0]);
        let mut data = Vec::new();
        let start = Instant::now();
        let mut status: i32 = 0;
        let mut exited = false;
        let mut timed_out = false;
        let mut buf = [0u8; 65536];
        loop {
            match file.read(&mut buf) {
                Ok(0) => {
                    if exited {
                        break;
                    }
                }
                Ok(n) => {
                    data.extend_from_slice(&buf[..n]);
                    continue;
                }
                Err(_) => {}
            }
            if !exited {
                let r = libc::waitpid(pid, &mut status, libc::WNOHANG);
                if r == pid {
                    exited = true;
                    continue;
                }
                if start.elapsed() > timeout {
                    libc::kill(pid, libc::SIGKILL);
                    libc::waitpid(pid, &mut status, 0);
                    timed_out = true;
                    break;
                }
                std::thread::sleep(Duration::from_micros(300));
            } else {
                // drain what is left
                match file.read(&mut buf) {
                    Ok(n) if n > 0 => data.extend_from_slice(&buf[..n]),
                    _ => break,
                }
            }
        }
        let at_case = std::ptr::read_volatile(page);
        libc::munmap(page as *mut libc::c_void, 4096);
        drop(file);
        let stderr = std::fs::read_to_string(&errpath).unwrap_or_default();
        let _ = std::fs::remove_file(&errpath);
        if timed_out {
            return ChildEnd::Timeout { at_case };
        }
        if libc::WIFEXITED(status) && libc::WEXITSTATUS(status) == 0 {
            if let Ok(rep) = serde_json::from_slice::<Report>(&data) {
                return ChildEnd::Done(rep);
            }
            return ChildEnd::Died { signal: 0, code: -1, at_case, stderr: "child report unreadable".into() };
        }
        let signal = if libc::WIFSIGNALED(status) { libc::WTERMSIG(status) } else { 0 };
        let code = if libc::WIFEXITED(status) { libc::WEXITSTATUS(status) } else { 0 };
        ChildEnd::Died { signal, code, at_case, stderr }
    }
}

fn first_line(s: &str) -> String {
    let l = s.lines().find(|l| !l.trim().is_empty()).unwrap_or("").trim();
    crate::journal::normalise_msg(l)
}

/// Run cases `0..total` through `f` in forked batches. `describe(i)` returns (signature class, witness)
/// for a case that killed its child.
pub fn run_batches<F, D>(rep: &mut Report, total: u64, cfg: &SandboxCfg, mut f: F, mut describe: D)
where
    F: FnMut(&mut Report, u64),
    D: FnMut(u64) -> (String, Value),
{
    let mut i = 0u64;
    let mut limit: Option<u64> = None;
    while i < total {
        let end = limit.take().unwrap_or_else(|| (i + cfg.batch).min(total));
        if end <= i {
            continue;
        }
        match run_child(rep, i, end, cfg.batch_timeout, cfg, &mut f) {
            ChildEnd::Done(r) => {
                rep.merge(r);
                i = end;
            }
            ChildEnd::Died { signal, code, at_case, stderr } => {
                let j = at_case.min(end - 1).max(i);
                if j > i {
                    // results of i..j were lost with the child: run them again (they are known to be harmless)
                    match run_child(rep, i, j, cfg.batch_timeout, cfg, &mut f) {
                        ChildEnd::Done(r) => rep.merge(r),
                        _ => rep.inconclusive(&format!("sandbox: re-run of cases {}..{} did not complete", i, j)),
                    }
                }
                let (class, witness) = describe(j);
                rep.evaluations += 1;
                let what = if signal != 0 { format!("signal{}", signal) } else { format!("exit{}", code) };
                rep.violation(
                    &format!("abort:{}:{}:{}", class, what, first_line(&stderr)),
                    json!({"case_index": j, "shard": rep.shard, "case": witness, "stderr_first": stderr.lines().take(3).collect::<Vec<_>>(), "stderr_last": stderr.lines().rev().take(6).collect::<Vec<_>>().into_iter().rev().collect::<Vec<_>>()}),
                );
                i = j + 1;
            }
            ChildEnd::Timeout { at_case } => {
                let j = at_case.min(end - 1).max(i);
                // isolate: the case alone with its own generous limit, three times
                let mut hangs = 0;
                for _ in 0..3 {
                    match run_child(rep, j, j + 1, cfg.case_timeout, cfg, &mut f) {
                        ChildEnd::Timeout { .. } => hangs += 1,
                        _ => break,
                    }
                }
                if hangs == 3 {
                    let (class, witness) = describe(j);
                    rep.evaluations += 1;
                    rep.violation(&format!("hang:{}", class), json!({"case_index": j, "shard": rep.shard, "case": witness}));
                    if j > i {
                        limit = Some(j);
                        // run i..j next, then skip j: handled by marking j as done through a one-case gap
                        match run_child(rep, i, j, cfg.batch_timeout, cfg, &mut f) {
                            ChildEnd::Done(r) => rep.merge(r),
                            _ => rep.inconclusive(&format!("sandbox: cases {}..{} did not complete", i, j)),
                        }
                        limit = None;
                    }
                    i = j + 1;
                } else {
                    // the watchdog fired on a loaded machine: retry the batch with half the size; give up as inconclusive when tiny
                    if end - i <= 1 {
                        rep.inconclusive(&format!("sandbox: case {} timed out once but not in isolation", j));
                        i = end;
                    } else {
                        limit = Some(i + (end - i) / 2);
                    }
                }
            }
        }
    }
}
