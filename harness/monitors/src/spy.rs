//! SpyBits: wraps the real `Bits` and delegates every call; records what was consumed.
use asn1rs::protocol::per::unaligned::BitRead;
use asn1rs::protocol::per::Error;
use asn1rs::rw::{Bits, ScopedBitRead};

pub struct SpyBits<'a> {
    inner: Bits<'a>,
    /// the length declared by the caller at construction (never changed by set_len)
    pub declared_len: usize,
    /// largest end position of any successful read
    pub max_touched: usize,
    /// number of successful reads that ended beyond the declared length
    pub overreads: u64,
    /// number of successful reads that ended beyond the *current* (possibly narrowed) length
    pub sub_overreads: u64,
    pub reads: u64,
    /// pos() > len() ever observed after an operation
    pub pos_beyond_len: u64,
}

impl<'a> SpyBits<'a> {
    pub fn new(bytes: &'a [u8], bit_len: usize) -> Self {
        SpyBits {
            inner: Bits::from((bytes, bit_len)),
            declared_len: bit_len,
            max_touched: 0,
            overreads: 0,
            sub_overreads: 0,
            reads: 0,
            pos_beyond_len: 0,
        }
    }

    #[inline]
    fn after<T>(&mut self, r: Result<T, Error>) -> Result<T, Error> {
        self.reads += 1;
        if r.is_ok() {
            let end = self.inner.pos();
            if end > self.max_touched {
                self.max_touched = end;
            }
            if end > self.declared_len {
                self.overreads += 1;
            }
            if end > self.inner.len() {
                self.sub_overreads += 1;
            }
        }
        if self.inner.pos() > self.inner.len() {
            self.pos_beyond_len += 1;
        }
        r
    }
}

impl BitRead for SpyBits<'_> {
    #[inline]
    fn read_bit(&mut self) -> Result<bool, Error> {
        let r = self.inner.read_bit();
        self.after(r)
    }
    #[inline]
    fn read_bits(&mut self, dst: &mut [u8]) -> Result<(), Error> {
        let r = self.inner.read_bits(dst);
        self.after(r)
    }
    #[inline]
    fn read_bits_with_offset(&mut self, dst: &mut [u8], dst_bit_offset: usize) -> Result<(), Error> {
        let r = self.inner.read_bits_with_offset(dst, dst_bit_offset);
        self.after(r)
    }
    #[inline]
    fn read_bits_with_len(&mut self, dst: &mut [u8], dst_bit_len: usize) -> Result<(), Error> {
        let r = self.inner.read_bits_with_len(dst, dst_bit_len);
        self.after(r)
    }
    #[inline]
    fn read_bits_with_offset_len(&mut self, dst: &mut [u8], dst_bit_offset: usize, dst_bit_len: usize) -> Result<(), Error> {
        let r = self.inner.read_bits_with_offset_len(dst, dst_bit_offset, dst_bit_len);
        self.after(r)
    }
}

impl ScopedBitRead for SpyBits<'_> {
    #[inline]
    fn pos(&self) -> usize {
        self.inner.pos()
    }
    #[inline]
    fn set_pos(&mut self, position: usize) -> usize {
        self.inner.set_pos(position)
    }
    #[inline]
    fn len(&self) -> usize {
        self.inner.len()
    }
    #[inline]
    fn set_len(&mut self, len: usize) -> usize {
        self.inner.set_len(len)
    }
    #[inline]
    fn remaining(&self) -> usize {
        self.inner.remaining()
    }
}
