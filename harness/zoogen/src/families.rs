//! zoo families (DESIGN.md 5): which ASN.1 modules are compiled into the zoo.
use crate::{module_name, Group};
use serde_json::json;
use vgen::gen::{Gen, GenCfg};
use vgen::rng::Rng;
use vgen::schema::*;

fn collect_refs(t: &Type, out: &mut Vec<String>) {
    match t {
        Type::Ref(n) => out.push(n.clone()),
        Type::Sequence(c) | Type::Set(c) => {
            for c in c.all() {
                collect_refs(&c.ty, out);
            }
        }
        Type::SequenceOf { elem, .. } | Type::SetOf { elem, .. } => collect_refs(elem, out),
        Type::Choice { root, ext } => {
            for a in root.iter().chain(ext.iter().flatten()) {
                collect_refs(&a.ty, out);
            }
        }
        _ => {}
    }
}

fn strip_unsupported_defaults(t: &mut Type) {
    // BIT STRING defaults are exercised by the compile family only (recorded finding: generated code does not compile)
    match t {
        Type::Sequence(c) | Type::Set(c) => {
            for comp in c.root.iter_mut().chain(c.ext.iter_mut().flatten()) {
                let strip = match (&comp.ty, &comp.presence) {
                    (Type::BitString { .. }, Presence::Default(_)) => true,
                    _ => false,
                };
                if strip {
                    comp.presence = Presence::Optional;
                }
                strip_unsupported_defaults(&mut comp.ty);
            }
        }
        Type::SequenceOf { elem, .. } | Type::SetOf { elem, .. } => strip_unsupported_defaults(elem),
        Type::Choice { root, ext } => {
            for a in root.iter_mut().chain(ext.iter_mut().flatten()) {
                strip_unsupported_defaults(&mut a.ty);
            }
        }
        _ => {}
    }
}

fn sanitize(m: &mut Module) {
    for d in m.defs.iter_mut() {
        strip_unsupported_defaults(&mut d.ty);
    }
    // value definitions of BIT STRING type are not needed any more
    let used: Vec<String> = {
        let mut v = Vec::new();
        fn walk(t: &Type, v: &mut Vec<String>) {
            match t {
                Type::Integer { c: Some(c), .. } => {
                    for b in [&c.lo, &c.hi] {
                        if let Bound::Ref(r) = b {
                            v.push(r.clone());
                        }
                    }
                }
                Type::BitString { size, .. } | Type::OctetString { size } | Type::CharString { size, .. } => size_refs(size, v),
                Type::Sequence(c) | Type::Set(c) => {
                    for c in c.all() {
                        if let Presence::Default(DefaultVal::Ref(r)) = &c.presence {
                            v.push(r.clone());
                        }
                        walk(&c.ty, v);
                    }
                }
                Type::SequenceOf { elem, size } | Type::SetOf { elem, size } => {
                    size_refs(size, v);
                    walk(elem, v);
                }
                Type::Choice { root, ext } => {
                    for a in root.iter().chain(ext.iter().flatten()) {
                        walk(&a.ty, v);
                    }
                }
                _ => {}
            }
        }
        fn size_refs(s: &Size, v: &mut Vec<String>) {
            match s {
                Size::Fixed(Bound::Ref(r), _) => v.push(r.clone()),
                Size::Range(a, b, _) => {
                    for x in [a, b] {
                        if let Bound::Ref(r) = x {
                            v.push(r.clone());
                        }
                    }
                }
                _ => {}
            }
        }
        for d in &m.defs {
            walk(&d.ty, &mut v);
        }
        v
    };
    let keep: Vec<bool> = m.values.iter().map(|v| used.contains(&v.name)).collect();
    let mut new_index = vec![usize::MAX; m.values.len()];
    let mut vals = Vec::new();
    for (i, v) in m.values.iter().enumerate() {
        if keep[i] {
            new_index[i] = vals.len();
            vals.push(v.clone());
        }
    }
    m.values = vals;
    m.order = m
        .order
        .iter()
        .filter_map(|it| match it {
            Item::Def(i) => Some(Item::Def(*i)),
            Item::Value(i) => {
                if new_index[*i] != usize::MAX {
                    Some(Item::Value(new_index[*i]))
                } else {
                    None
                }
            }
        })
        .collect();
}

pub fn rand(groups: &mut Vec<Group>, rng: &mut Rng, tier: &str) {
    // thorough: more modules, but the zoo stays below ~4000 types: every type instantiates every monitor, and rustc
    // needed > 20 GB per shard for 7000 types (the thorough tier gets its depth from values per type and seeds instead)
    let n = if tier == "quick" { 36 } else { 120 };
    for k in 0..n {
        let gi = groups.len();
        let mut cfg = GenCfg::codec();
        cfg.oids = k % 3 == 0;
        let two = k % 4 == 1;
        let mut g = Gen::new(rng, cfg);
        let mut modules = Vec::new();
        if two {
            let nb = 2;
            let mut b = g.gen_module(&module_name(gi, 1), nb);
            sanitize(&mut b);
            let nd = g.rng.range(2, 4) as usize;
            let mut a = g.gen_module(&module_name(gi, 0), nd);
            sanitize(&mut a);
            // imports for everything A references from B
            let mut refs = Vec::new();
            for d in &a.defs {
                collect_refs(&d.ty, &mut refs);
            }
            refs.sort();
            refs.dedup();
            let what: Vec<String> = refs.into_iter().filter(|r| a.def(r).is_none() && b.def(r).is_some()).collect();
            if !what.is_empty() {
                a.imports.push(Import { what, from: b.name.clone(), from_oid: b.oid.clone() });
            }
            modules.push(a);
            modules.push(b);
        } else {
            let nd = g.rng.range(2, 5) as usize;
            let mut a = g.gen_module(&module_name(gi, 0), nd);
            sanitize(&mut a);
            modules.push(a);
        }
        let mut grp = Group::new("rand", modules);
        grp.inline_macro = !two && k % 5 == 0;
        groups.push(grp);
    }
}

fn def(name: &str, ty: Type) -> Def {
    Def { name: name.to_string(), tag: None, ty }
}

fn size_range(a: u64, b: u64) -> Size {
    Size::Range(Bound::Lit(a as i128), Bound::Lit(b as i128), false)
}

pub fn large(groups: &mut Vec<Group>) {
    let gi = groups.len();
    let mut m = Module::new(&module_name(gi, 0));
    m.push_def(def("LOct1", Type::OctetString { size: Size::None }));
    m.push_def(def("LOct2", Type::OctetString { size: size_range(0, 70000) }));
    m.push_def(def("LOct3", Type::OctetString { size: size_range(0, 40000) }));
    m.push_def(def("LBit1", Type::BitString { size: Size::None, named: vec![] }));
    m.push_def(def("LBit2", Type::BitString { size: size_range(0, 200000), named: vec![] }));
    m.push_def(def("LBit3", Type::BitString { size: size_range(0, 40000), named: vec![] }));
    m.push_def(def("LUtf1", Type::CharString { cs: Charset::Utf8, size: Size::None }));
    for (i, cs) in [Charset::Ia5, Charset::Numeric, Charset::Printable, Charset::Visible].iter().enumerate() {
        m.push_def(def(&format!("LStr{}", i * 2 + 1), Type::CharString { cs: *cs, size: Size::None }));
        m.push_def(def(&format!("LStr{}", i * 2 + 2), Type::CharString { cs: *cs, size: size_range(0, 70000) }));
    }
    m.push_def(def("LList1", Type::SequenceOf { elem: Box::new(Type::Boolean), size: Size::None }));
    m.push_def(def("LList2", Type::SequenceOf { elem: Box::new(Type::int(0, 255)), size: size_range(0, 70000) }));
    m.push_def(def("LList3", Type::SetOf { elem: Box::new(Type::int(0, 7)), size: Size::None }));
    m.push_def(def("LList4", Type::SequenceOf { elem: Box::new(Type::int(0, 7)), size: size_range(0, 40000) }));
    // extensible SIZE with a small root: lengths outside the root use the general (fragmentable) length form
    let ext_small = |a: u64, b: u64| Size::Range(Bound::Lit(a as i128), Bound::Lit(b as i128), true);
    m.push_def(def("LExt1", Type::SequenceOf { elem: Box::new(Type::Boolean), size: ext_small(1, 4) }));
    m.push_def(def("LExt2", Type::SetOf { elem: Box::new(Type::int(0, 255)), size: ext_small(0, 300) }));
    m.push_def(def("LExt3", Type::OctetString { size: ext_small(1, 8) }));
    m.push_def(def("LExt4", Type::BitString { size: ext_small(3, 3), named: vec![] }));
    m.push_def(def("LExt5", Type::CharString { cs: Charset::Ia5, size: ext_small(1, 8) }));
    m.push_def(def("LExt6", Type::CharString { cs: Charset::Numeric, size: ext_small(2, 40000) }));
    m.push_def(def("LExt7", Type::CharString { cs: Charset::Printable, size: Size::Fixed(Bound::Lit(5), true) }));
    m.push_def(def("LExt8", Type::CharString { cs: Charset::Visible, size: ext_small(0, 65535) }));
    m.push_def(def("LExt9", Type::CharString { cs: Charset::Utf8, size: ext_small(1, 8) }));
    // the 64K threshold itself (X.691 11.9.3.3/16.10/17.5..: "less than 64K"): fixed sizes and upper bounds of exactly
    // 65535, 65536 and 65537 - a fixed size of 65536 needs the fragmented length form, one of 65535 needs none
    let fixed = |n: u64, ext: bool| Size::Fixed(Bound::Lit(n as i128), ext);
    for (i, n) in [65535u64, 65536, 65537].iter().enumerate() {
        m.push_def(def(&format!("LFixBit{}", i + 1), Type::BitString { size: fixed(*n, false), named: vec![] }));
        m.push_def(def(&format!("LFixOct{}", i + 1), Type::OctetString { size: fixed(*n, false) }));
        m.push_def(def(&format!("LFixList{}", i + 1), Type::SequenceOf { elem: Box::new(Type::Boolean), size: fixed(*n, false) }));
        m.push_def(def(&format!("LFixStr{}", i + 1), Type::CharString { cs: Charset::Ia5, size: fixed(*n, false) }));
    }
    m.push_def(def("LFixBitExt", Type::BitString { size: fixed(65536, true), named: vec![] }));
    m.push_def(def("LFixOctExt", Type::OctetString { size: fixed(65536, true) }));
    m.push_def(def("LRngBit1", Type::BitString { size: size_range(0, 65535), named: vec![] }));
    m.push_def(def("LRngBit2", Type::BitString { size: size_range(0, 65536), named: vec![] }));
    m.push_def(def("LRngOct1", Type::OctetString { size: size_range(65535, 65536) }));
    m.push_def(def("LRngList1", Type::SequenceOf { elem: Box::new(Type::Boolean), size: size_range(65534, 65535) }));
    m.push_def(def("LRngStr1", Type::CharString { cs: Charset::Numeric, size: size_range(65536, 65537) }));
    groups.push(Group::new("large", vec![m]));
}

/// C03: every shape with n <= N components x {M, O, D}^n x extension marker position x {SEQUENCE, SET}
pub fn shapes(groups: &mut Vec<Group>, tier: &str) {
    // thorough: the 3-kind combinations complete to 4 components, the ones with N/Z members complete to 3 and every
    // fifth of those with 4 (a zoo of 10^4 shapes needs more memory than 16 parallel rustc processes have here)
    let nmax = if tier == "quick" { 3 } else { 4 };
    let mut all: Vec<(Def, serde_json::Value)> = Vec::new();
    let mut k = 0usize;
    // kinds: M mandatory leaf, O OPTIONAL leaf, D DEFAULT leaf, N mandatory nested plain SEQUENCE (no presence bits,
    // 4 bits), Z mandatory NULL (0 bits). The 3-kind combinations are complete up to nmax components, the ones
    // involving N/Z up to nmax5.
    let nmax5 = if tier == "quick" { 3 } else { 4 };
    for n in 1..=nmax {
        let combos = 5usize.pow(n as u32);
        for combo in 0..combos {
            let digits: Vec<usize> = (0..n).scan(combo, |c, _| { let d = *c % 5; *c /= 5; Some(d) }).collect();
            if digits.iter().any(|d| *d >= 3) && (n > nmax5 || (tier != "quick" && n == 4 && combo % 25 != 0)) {
                continue;
            }
            // ext: None, or root = first r components (1 <= r <= n)
            for ext in 0..=n {
                for is_set in [false, true] {
                    let mut comps = Vec::new();
                    let mut kinds = String::new();
                    for i in 0..n {
                        let kind = digits[i];
                        let (ty, presence) = match kind {
                            0 => (if i % 2 == 0 { Type::int(0, 7) } else { Type::Boolean }, Presence::Mandatory),
                            1 => (if i % 2 == 0 { Type::int(0, 7) } else { Type::Boolean }, Presence::Optional),
                            2 => (Type::int(0, 255), Presence::Default(DefaultVal::Lit(Lit::Int(5)))),
                            3 => (
                                Type::Sequence(Comps {
                                    root: vec![
                                        Comp { name: "x".into(), tag: None, ty: Type::int(0, 7), presence: Presence::Mandatory },
                                        Comp { name: "y".into(), tag: None, ty: Type::Boolean, presence: Presence::Mandatory },
                                    ],
                                    ext: None,
                                }),
                                Presence::Mandatory,
                            ),
                            _ => (Type::Null, Presence::Mandatory),
                        };
                        kinds.push(['M', 'O', 'D', 'N', 'Z'][kind]);
                        comps.push(Comp { name: format!("c{}", i), tag: None, ty, presence });
                    }
                    let c = if ext == 0 { Comps { root: comps, ext: None } } else { Comps { root: comps[..ext].to_vec(), ext: Some(comps[ext..].to_vec()) } };
                    k += 1;
                    let name = format!("Sh{}", k);
                    let note = json!({"kinds": kinds, "root": if ext == 0 { n } else { ext }, "extensible": ext != 0, "set": is_set});
                    all.push((def(&name, if is_set { Type::Set(c) } else { Type::Sequence(c) }), note));
                }
            }
        }
    }
    for chunk in all.chunks(60) {
        let gi = groups.len();
        let mut m = Module::new(&module_name(gi, 0));
        let mut g = Group::new("shapes", vec![]);
        for (d, note) in chunk {
            g.notes.insert(d.name.clone(), note.clone());
            m.push_def(d.clone());
        }
        g.modules.push(m);
        groups.push(g);
    }
}

fn fixed_octets(n: u64) -> Type {
    Type::OctetString { size: Size::Fixed(Bound::Lit(n as i128), false) }
}

/// C05: (V1, V2) pairs; V2 = V1 + k extension additions / alternatives / enumeration items
pub fn compat(groups: &mut Vec<Group>, rng: &mut Rng, tier: &str) {
    let npairs = if tier == "quick" { 40 } else { 100 };
    let lens = [1u64, 2, 63, 64, 127, 128, 129, 300];
    let mut made = 0;
    while made < npairs {
        let gi = groups.len();
        let mut v1 = Module::new(&module_name(gi, 0));
        let mut v2 = Module::new(&module_name(gi, 1));
        let mut pairs = Vec::new();
        for _ in 0..5 {
            if made >= npairs {
                break;
            }
            made += 1;
            let name = format!("Pv{}", made);
            let kind = rng.below(8);
            match kind {
                0..=4 => {
                    // extensible SEQUENCE / SET
                    let nroot = rng.range(1, 3) as usize;
                    let mut root = Vec::new();
                    for i in 0..nroot {
                        let ty = match rng.below(4) {
                            0 => Type::Boolean,
                            1 => Type::int(0, 65535),
                            2 => Type::CharString { cs: Charset::Utf8, size: Size::None },
                            _ => Type::int(-5, 5),
                        };
                        root.push(Comp { name: format!("r{}", i), tag: None, ty, presence: if rng.chance(1, 3) { Presence::Optional } else { Presence::Mandatory } });
                    }
                    let j = rng.range(0, 3) as usize;
                    let k = rng.range(1, 8) as usize;
                    let mut adds = Vec::new();
                    for i in 0..j + k {
                        let ty = match rng.below(5) {
                            0 => Type::Boolean,
                            1 => Type::int(0, 255),
                            2 => Type::Sequence(Comps {
                                root: vec![Comp { name: "inner".into(), tag: None, ty: Type::int(0, 7), presence: Presence::Mandatory }],
                                ext: Some(vec![Comp { name: "deep".into(), tag: None, ty: Type::Boolean, presence: Presence::Optional }]),
                            }),
                            _ => fixed_octets(*rng.pick(&lens)),
                        };
                        adds.push(Comp { name: format!("a{}", i), tag: None, ty, presence: if rng.bool() { Presence::Optional } else { Presence::Mandatory } });
                    }
                    let is_set = rng.chance(1, 3);
                    let c1 = Comps { root: root.clone(), ext: Some(adds[..j].to_vec()) };
                    let c2 = Comps { root, ext: Some(adds) };
                    v1.push_def(def(&name, if is_set { Type::Set(c1) } else { Type::Sequence(c1) }));
                    v2.push_def(def(&name, if is_set { Type::Set(c2) } else { Type::Sequence(c2) }));
                }
                5 | 6 => {
                    // extensible CHOICE
                    let nroot = rng.range(1, 3) as usize;
                    let mut root = Vec::new();
                    for i in 0..nroot {
                        root.push(Alt { name: format!("r{}", i), tag: None, ty: if i % 2 == 0 { Type::int(0, 255) } else { Type::Boolean } });
                    }
                    let j = rng.range(0, 2) as usize;
                    let k = rng.range(1, 4) as usize;
                    let mut adds = Vec::new();
                    for i in 0..j + k {
                        adds.push(Alt { name: format!("a{}", i), tag: None, ty: match rng.below(3) { 0 => Type::Boolean, 1 => fixed_octets(*rng.pick(&lens)), _ => Type::int(0, 65535) } });
                    }
                    v1.push_def(def(&name, Type::Choice { root: root.clone(), ext: Some(adds[..j].to_vec()) }));
                    v2.push_def(def(&name, Type::Choice { root, ext: Some(adds) }));
                }
                _ => {
                    // extensible ENUMERATED
                    let nroot = rng.range(1, 4) as usize;
                    let root: Vec<EnumItem> = (0..nroot).map(|i| EnumItem { name: format!("r{}", i), num: None }).collect();
                    let j = rng.range(0, 2) as usize;
                    let k = rng.range(1, 70) as usize;
                    let adds: Vec<EnumItem> = (0..j + k).map(|i| EnumItem { name: format!("a{}", i), num: None }).collect();
                    v1.push_def(def(&name, Type::Enumerated { root: root.clone(), ext: Some(adds[..j].to_vec()) }));
                    v2.push_def(def(&name, Type::Enumerated { root, ext: Some(adds) }));
                }
            }
            pairs.push((name.clone(), name.clone()));
            // nested use: as element of a list and as non-last component
            let outer = format!("Po{}", made);
            let outer_ty = Type::Sequence(Comps {
                root: vec![
                    Comp { name: "list".into(), tag: None, ty: Type::SequenceOf { elem: Box::new(Type::Ref(name.clone())), size: size_range(0, 3) }, presence: Presence::Mandatory },
                    Comp { name: "one".into(), tag: None, ty: Type::Ref(name.clone()), presence: Presence::Mandatory },
                    Comp { name: "tail".into(), tag: None, ty: Type::int(0, 65535), presence: Presence::Mandatory },
                ],
                ext: None,
            });
            v1.push_def(def(&outer, outer_ty.clone()));
            v2.push_def(def(&outer, outer_ty));
            pairs.push((outer.clone(), outer));
            // the versioned type inside an open type: as extension addition of an outer type (same in both
            // versions) followed by a further addition, and as CHOICE extension alternative followed by a root field
            let px = format!("Px{}", made);
            let px_ty = Type::Sequence(Comps {
                root: vec![Comp { name: "head".into(), tag: None, ty: Type::Boolean, presence: Presence::Mandatory }],
                ext: Some(vec![
                    Comp { name: "grown".into(), tag: None, ty: Type::Ref(name.clone()), presence: Presence::Optional },
                    Comp { name: "after".into(), tag: None, ty: Type::int(0, 65535), presence: Presence::Optional },
                ]),
            });
            v1.push_def(def(&px, px_ty.clone()));
            v2.push_def(def(&px, px_ty));
            pairs.push((px.clone(), px));
            let pc = format!("Pc{}", made);
            let pc_ty = Type::Sequence(Comps {
                root: vec![
                    Comp {
                        name: "sel".into(),
                        tag: None,
                        ty: Type::Choice { root: vec![Alt { name: "plain".into(), tag: None, ty: Type::Boolean }], ext: Some(vec![Alt { name: "grown".into(), tag: None, ty: Type::Ref(name.clone()) }]) },
                        presence: Presence::Mandatory,
                    },
                    Comp { name: "tail".into(), tag: None, ty: Type::int(0, 65535), presence: Presence::Mandatory },
                ],
                ext: None,
            });
            v1.push_def(def(&pc, pc_ty.clone()));
            v2.push_def(def(&pc, pc_ty));
            pairs.push((pc.clone(), pc));
        }
        let mut g = Group::new("compat", vec![v1, v2]);
        g.pairs = pairs;
        groups.push(g);
    }
}

/// C16 (compiled level): SETs with mixed explicit tags over leaf components
pub fn sets(groups: &mut Vec<Group>, rng: &mut Rng, tier: &str) {
    let n = if tier == "quick" { 60 } else { 200 };
    let mut defs = Vec::new();
    for k in 0..n {
        let nc = rng.range(2, 5) as usize;
        let pattern = rng.below(4);
        let leafs = [
            Type::Boolean,
            Type::int(0, 255),
            Type::int(-100, 100),
            Type::CharString { cs: Charset::Utf8, size: Size::None },
            Type::OctetString { size: size_range(0, 4) },
            Type::int(0, 65535),
        ];
        let mut used = Vec::new();
        let mut comps = Vec::new();
        let mut order: Vec<usize> = (0..leafs.len()).collect();
        rng.shuffle(&mut order);
        for i in 0..nc {
            let tag = match pattern {
                0 => None,
                1 => loop {
                    let t = Tag { class: Class::Context, num: rng.range(0, 9) };
                    if !used.contains(&t) {
                        used.push(t);
                        break Some(t);
                    }
                },
                _ => loop {
                    let t = Tag { class: *rng.pick(&[Class::Application, Class::Context, Class::Private, Class::Universal]), num: 30 + rng.range(0, 5) };
                    if !used.contains(&t) {
                        used.push(t);
                        break Some(t);
                    }
                },
            };
            comps.push(Comp { name: format!("m{}{}", i, ["x", "y-y", "zed"][i % 3]), tag, ty: leafs[order[i]].clone(), presence: if rng.chance(1, 4) { Presence::Optional } else { Presence::Mandatory } });
        }
        let ext = if rng.chance(1, 3) && nc > 1 { Some(rng.range(1, nc as u64 - 1) as usize) } else { None };
        let c = match ext {
            Some(p) => Comps { root: comps[..p].to_vec(), ext: Some(comps[p..].to_vec()) },
            None => Comps { root: comps, ext: None },
        };
        defs.push(def(&format!("St{}", k), Type::Set(c)));
    }
    for chunk in defs.chunks(60) {
        let gi = groups.len();
        let mut m = Module::new(&module_name(gi, 0));
        for d in chunk {
            m.push_def(d.clone());
        }
        groups.push(Group::new("sets", vec![m]));
    }
}

/// C06: constrained leaves at their edges
pub fn edges(groups: &mut Vec<Group>, rng: &mut Rng) {
    let gi = groups.len();
    let mut m = Module::new(&module_name(gi, 0));
    let mut k = 0;
    let mut push = |m: &mut Module, ty: Type| {
        k += 1;
        m.push_def(def(&format!("Ed{}", k), ty));
    };
    for (lo, hi) in [(5i128, 5i128), (0, 0), (-3, -3), (0, 7), (1, 8), (-8, -1), (-128, 127), (0, 255), (0, 256), (100, 1000), (-1, 65535), (0, 65535), (0, 65536), (-70000, 70000), (0, 4294967295), (1, 4294967296), (0, 1i128 << 33), (0, 1i128 << 62), (-(1i128 << 62), (1i128 << 62) - 1), (0, i64::MAX as i128)] {
        push(&mut m, Type::int(lo, hi));
        push(&mut m, Type::Integer { c: Some(IntC { lo: Bound::Lit(lo), hi: Bound::Lit(hi), ext: true }), named: vec![] });
    }
    for size in [
        Size::Fixed(Bound::Lit(0), false),
        Size::Fixed(Bound::Lit(3), false),
        Size::Fixed(Bound::Lit(3), true),
        size_range(1, 4),
        size_range(2, 2),
        Size::Range(Bound::Lit(1), Bound::Lit(4), true),
        size_range(0, 127),
        size_range(120, 130),
        Size::Range(Bound::Lit(2), Bound::Max, false),
    ] {
        push(&mut m, Type::OctetString { size: size.clone() });
        push(&mut m, Type::BitString { size: size.clone(), named: vec![] });
        for cs in Charset::ALL {
            push(&mut m, Type::CharString { cs, size: size.clone() });
        }
        push(&mut m, Type::SequenceOf { elem: Box::new(Type::Boolean), size: size.clone() });
        push(&mut m, Type::SetOf { elem: Box::new(Type::int(0, 3)), size: size.clone() });
    }
    // normally-small numbers around 64: many extension additions
    push(&mut m, Type::Enumerated { root: vec![EnumItem { name: "r0".into(), num: None }, EnumItem { name: "r1".into(), num: None }], ext: Some((0..70).map(|i| EnumItem { name: format!("x{}", i), num: None }).collect()) });
    push(
        &mut m,
        Type::Choice {
            root: vec![Alt { name: "r0".into(), tag: None, ty: Type::Boolean }],
            ext: Some((0..67).map(|i| Alt { name: format!("x{}", i), tag: None, ty: if i % 2 == 0 { Type::int(0, 255) } else { Type::Boolean } }).collect()),
        },
    );
    push(
        &mut m,
        Type::Sequence(Comps {
            root: vec![Comp { name: "r0".into(), tag: None, ty: Type::Boolean, presence: Presence::Mandatory }],
            ext: Some((0..65).map(|i| Comp { name: format!("x{}", i), tag: None, ty: Type::int(0, 7), presence: Presence::Optional }).collect()),
        }),
    );
    // inside a SEQUENCE, so that a wrong encoding shifts a neighbour
    push(
        &mut m,
        Type::Sequence(Comps {
            root: vec![
                Comp { name: "a".into(), tag: None, ty: Type::int(5, 5), presence: Presence::Mandatory },
                Comp { name: "b".into(), tag: None, ty: Type::OctetString { size: Size::Fixed(Bound::Lit(2), false) }, presence: Presence::Mandatory },
                Comp { name: "c".into(), tag: None, ty: Type::CharString { cs: Charset::Numeric, size: size_range(1, 3) }, presence: Presence::Optional },
                Comp { name: "d".into(), tag: None, ty: Type::int(0, 7), presence: Presence::Mandatory },
            ],
            ext: None,
        }),
    );
    let _ = rng;
    groups.push(Group::new("edges", vec![m]));
}

/// C04: sizes a decoder must not trust
pub fn hostile(groups: &mut Vec<Group>) {
    let gi = groups.len();
    let mut m = Module::new(&module_name(gi, 0));
    let big = |a: u64, b: Option<u64>| Size::Range(Bound::Lit(a as i128), b.map(|b| Bound::Lit(b as i128)).unwrap_or(Bound::Max), false);
    m.push_def(def("Ho1", Type::OctetString { size: big(1, None) }));
    m.push_def(def("Ho2", Type::OctetString { size: big(0, Some(65535)) }));
    m.push_def(def("Ho3", Type::OctetString { size: big(0, Some(65536)) }));
    m.push_def(def("Ho4", Type::OctetString { size: Size::Fixed(Bound::Lit(70000), false) }));
    m.push_def(def("Ho5", Type::BitString { size: big(1, None), named: vec![] }));
    m.push_def(def("Ho6", Type::CharString { cs: Charset::Ia5, size: big(1, None) }));
    m.push_def(def("Ho7", Type::CharString { cs: Charset::Numeric, size: big(0, Some(65536)) }));
    m.push_def(def("Ho8", Type::SequenceOf { elem: Box::new(Type::SequenceOf { elem: Box::new(Type::int_unconstrained()), size: Size::None }), size: big(1, None) }));
    m.push_def(def("Ho9", Type::SequenceOf { elem: Box::new(Type::CharString { cs: Charset::Utf8, size: Size::None }), size: Size::None }));
    m.push_def(def("Ho10", Type::CharString { cs: Charset::Visible, size: Size::Fixed(Bound::Lit(70000), false) }));
    let mut chain = Type::Boolean;
    for i in 0..6 {
        chain = Type::Sequence(Comps {
            root: vec![
                Comp { name: format!("o{}", i), tag: None, ty: chain, presence: Presence::Optional },
                Comp { name: format!("n{}", i), tag: None, ty: Type::int_unconstrained(), presence: Presence::Optional },
            ],
            ext: Some(vec![Comp { name: format!("x{}", i), tag: None, ty: Type::OctetString { size: Size::None }, presence: Presence::Optional }]),
        });
    }
    m.push_def(def("Ho11", chain));
    m.push_def(def(
        "Ho12",
        Type::Choice {
            root: vec![Alt { name: "a".into(), tag: None, ty: Type::Null }, Alt { name: "b".into(), tag: None, ty: Type::BitString { size: Size::None, named: vec![] } }],
            ext: Some(vec![Alt { name: "c".into(), tag: None, ty: Type::SequenceOf { elem: Box::new(Type::Boolean), size: Size::None } }]),
        },
    ));
    m.push_def(def("Ho13", Type::Enumerated { root: vec![EnumItem { name: "a".into(), num: None }, EnumItem { name: "b".into(), num: None }, EnumItem { name: "c".into(), num: None }], ext: Some(vec![EnumItem { name: "d".into(), num: None }]) }));
    m.push_def(def("Ho14", Type::Integer { c: Some(IntC { lo: Bound::Lit(5), hi: Bound::Max, ext: false }), named: vec![] }));
    // lists of *large* elements: a decoder that reserves `length x size_of(element)` from an untrusted length determinant
    // before reading needs > 64 MiB for a 3-octet input here (elements are never zero bits wide: strict bound applies)
    m.push_def(def(
        "Ho15",
        Type::Sequence(Comps { root: (0..60).map(|i| Comp { name: format!("f{}", i), tag: None, ty: Type::OctetString { size: Size::None }, presence: Presence::Mandatory }).collect(), ext: None }),
    ));
    m.push_def(def("Ho16", Type::SequenceOf { elem: Box::new(Type::Ref("Ho15".into())), size: Size::None }));
    m.push_def(def(
        "Ho17",
        Type::SequenceOf {
            elem: Box::new(Type::Sequence(Comps {
                root: vec![
                    Comp { name: "l".into(), tag: None, ty: Type::Ref("Ho16".into()), presence: Presence::Mandatory },
                    Comp { name: "m".into(), tag: None, ty: Type::SetOf { elem: Box::new(Type::Ref("Ho15".into())), size: big(1, None) }, presence: Presence::Mandatory },
                ],
                ext: None,
            })),
            size: Size::None,
        },
    ));
    groups.push(Group::new("hostile", vec![m]));
}

/// C17/C18: protobuf corner cases
pub fn protoedge(groups: &mut Vec<Group>) {
    let gi = groups.len();
    let mut m = Module::new(&module_name(gi, 0));
    let opt = |name: &str, ty: Type| Comp { name: name.into(), tag: None, ty, presence: Presence::Optional };
    let man = |name: &str, ty: Type| Comp { name: name.into(), tag: None, ty, presence: Presence::Mandatory };
    m.push_def(def(
        "Pe1",
        Type::Sequence(Comps {
            root: vec![
                man("u8", Type::int(0, 255)),
                man("i8", Type::int(-128, 127)),
                man("u16", Type::int(0, 65535)),
                man("i16", Type::int(-32768, 32767)),
                man("u32", Type::int(0, 4294967295)),
                man("i32", Type::int(-2147483648, 2147483647)),
                man("u64", Type::int_unconstrained()),
                // the widest signed range inside the UPER profile (ub - lb <= 2^63 - 1); still an i64 / sint64
                man("i64", Type::int(-(1i128 << 62), (1i128 << 62) - 1)),
                man("b", Type::Boolean),
                man("n", Type::Null),
                man("bits", Type::BitString { size: Size::None, named: vec![] }),
                man("oct", Type::OctetString { size: Size::None }),
                man("s", Type::CharString { cs: Charset::Utf8, size: Size::None }),
            ],
            ext: None,
        }),
    ));
    m.push_def(def(
        "Pe2",
        Type::Sequence(Comps {
            root: vec![
                opt("u8", Type::int(0, 255)),
                opt("i32", Type::int(-2147483648, 2147483647)),
                opt("b", Type::Boolean),
                opt("s", Type::CharString { cs: Charset::Utf8, size: Size::None }),
                opt("oct", Type::OctetString { size: Size::None }),
                opt("l", Type::SequenceOf { elem: Box::new(Type::int(0, 7)), size: Size::None }),
                opt("n", Type::Null),
                man("last", Type::int(0, 7)),
            ],
            ext: None,
        }),
    ));
    m.push_def(def("Pe3", Type::SequenceOf { elem: Box::new(Type::Ref("Pe2".into())), size: Size::None }));
    m.push_def(def(
        "Pe4",
        Type::Choice {
            root: vec![
                Alt { name: "inner".into(), tag: None, ty: Type::Choice { root: vec![Alt { name: "x".into(), tag: None, ty: Type::int(-5, 5) }, Alt { name: "y".into(), tag: None, ty: Type::Boolean }], ext: None } },
                Alt { name: "seq".into(), tag: None, ty: Type::Ref("Pe2".into()) },
                Alt { name: "en".into(), tag: None, ty: Type::Enumerated { root: vec![EnumItem { name: "idle".into(), num: None }, EnumItem { name: "busy".into(), num: None }], ext: None } },
                Alt { name: "nul".into(), tag: None, ty: Type::Null },
                Alt { name: "num".into(), tag: None, ty: Type::int_unconstrained() },
                Alt { name: "txt".into(), tag: None, ty: Type::CharString { cs: Charset::Utf8, size: Size::None } },
            ],
            ext: None,
        },
    ));
    m.push_def(def(
        "Pe5",
        Type::Sequence(Comps {
            root: (0..20).map(|i| man(&format!("f{}", i), if i % 2 == 0 { Type::int(0, 255) } else { Type::Boolean })).collect(),
            ext: None,
        }),
    ));
    m.push_def(def(
        "Pe6",
        Type::Sequence(Comps {
            root: vec![man("c", Type::Ref("Pe4".into())), man("e", Type::Enumerated { root: vec![EnumItem { name: "a".into(), num: None }, EnumItem { name: "b".into(), num: None }, EnumItem { name: "c".into(), num: None }], ext: None }), man("t", Type::int(0, 7))],
            ext: None,
        }),
    ));
    m.push_def(def("Pe7", Type::SequenceOf { elem: Box::new(Type::CharString { cs: Charset::Utf8, size: Size::None }), size: Size::None }));
    m.push_def(def("Pe8", Type::int(-2147483648, 2147483647)));
    m.push_def(def("Pe9", Type::Sequence(Comps { root: vec![man("big", Type::int(-(1i128 << 62), (1i128 << 62) - 1)), man("s32", Type::int(-2147483648, 2147483647)), man("after", Type::int(0, 255))], ext: None })));
    groups.push(Group::new("protoedge", vec![m]));
}

// =================================================================================================
// C09: compile families. Every group is one module (set) that is only compiled, never run.

fn note_group(family: &str, m: Module, what: &str, ident: &str) -> Group {
    let mut g = Group::new(family, vec![m]);
    g.notes.insert("c09".into(), json!({"construct": what, "identifier": ident}));
    g
}

/// every Rust keyword at every position an ASN.1 identifier can take - one group per (keyword, position)
pub fn c09_keywords(groups: &mut Vec<Group>) {
    let man = |name: &str, ty: Type| Comp { name: name.into(), tag: None, ty, presence: Presence::Mandatory };
    for kw in vgen::gen::RUST_KEYWORDS {
        let lower = kw.to_lowercase();
        // ASN.1 identifiers start lower case, type references upper case
        let ident = if *kw == "Self" { "self".to_string() } else { kw.to_string() };
        let upper = {
            let mut c = lower.chars();
            let f = c.next().unwrap().to_uppercase().collect::<String>();
            format!("{}{}", f, c.as_str())
        };
        let positions: Vec<(&str, Box<dyn Fn(&mut Module)>)> = vec![
            ("component", Box::new({
                let ident = ident.clone();
                move |m: &mut Module| m.push_def(def("Holder", Type::Sequence(Comps { root: vec![man(&ident, Type::int(0, 255)), man("other", Type::Boolean)], ext: None })))
            })),
            ("optional-component", Box::new({
                let ident = ident.clone();
                move |m: &mut Module| {
                    m.push_def(def(
                        "Holder",
                        Type::Sequence(Comps {
                            root: vec![
                                Comp { name: ident.clone(), tag: None, ty: Type::int(0, 255), presence: Presence::Optional },
                                Comp { name: "other".into(), tag: None, ty: Type::int(0, 255), presence: Presence::Default(DefaultVal::Lit(Lit::Int(3))) },
                            ],
                            ext: None,
                        }),
                    ))
                }
            })),
            ("alternative", Box::new({
                let ident = ident.clone();
                move |m: &mut Module| m.push_def(def("Pick", Type::Choice { root: vec![Alt { name: ident.clone(), tag: None, ty: Type::int(0, 255) }, Alt { name: "other".into(), tag: None, ty: Type::Boolean }], ext: None }))
            })),
            ("enumeration-item", Box::new({
                let ident = ident.clone();
                move |m: &mut Module| m.push_def(def("Kind", Type::Enumerated { root: vec![EnumItem { name: ident.clone(), num: None }, EnumItem { name: "other".into(), num: None }], ext: None }))
            })),
            ("named-number", Box::new({
                let ident = ident.clone();
                move |m: &mut Module| {
                    m.push_def(def("Nums", Type::Integer { c: Some(IntC { lo: Bound::Lit(0), hi: Bound::Lit(255), ext: false }), named: vec![(ident.clone(), 1), ("other".into(), 2)] }));
                    m.push_def(def("Holder", Type::Sequence(Comps { root: vec![man("inner", Type::Integer { c: Some(IntC { lo: Bound::Lit(0), hi: Bound::Lit(255), ext: false }), named: vec![(ident.clone(), 1)] })], ext: None })));
                }
            })),
            ("inline-component-type", Box::new({
                let ident = ident.clone();
                move |m: &mut Module| {
                    m.push_def(def(
                        "Outer",
                        Type::Sequence(Comps {
                            root: vec![
                                man(&ident, Type::Sequence(Comps { root: vec![man(&ident, Type::Boolean)], ext: None })),
                                man("second", Type::Enumerated { root: vec![EnumItem { name: ident.clone(), num: None }], ext: None }),
                                man("third", Type::Choice { root: vec![Alt { name: ident.clone(), tag: None, ty: Type::Null }], ext: None }),
                            ],
                            ext: None,
                        }),
                    ))
                }
            })),
            ("value-reference", Box::new({
                let ident = ident.clone();
                move |m: &mut Module| {
                    m.push_value(ValueDef { name: ident.clone(), ty: Type::int_unconstrained(), lit: Lit::Int(5) });
                    m.push_def(def("Ranged", Type::Integer { c: Some(IntC { lo: Bound::Lit(0), hi: Bound::Ref(ident.clone()), ext: false }), named: vec![] }));
                }
            })),
            ("type-reference", Box::new({
                let upper = upper.clone();
                move |m: &mut Module| {
                    m.push_def(def(&upper, Type::Sequence(Comps { root: vec![man("a", Type::Boolean)], ext: None })));
                    m.push_def(def("User", Type::Sequence(Comps { root: vec![man("inner", Type::Ref(upper.clone())), man("more", Type::SequenceOf { elem: Box::new(Type::Ref(upper.clone())), size: Size::None })], ext: None })));
                }
            })),
        ];
        for (what, build) in positions {
            let gi = groups.len();
            let mut m = Module::new(&module_name(gi, 0));
            build(&mut m);
            groups.push(note_group("c09kw", m, what, kw));
        }
    }
}

/// identifiers that are distinct in ASN.1 but meet after name mangling, names of the Rust prelude, of the generated
/// helper items and of the primitive types
pub fn c09_collisions(groups: &mut Vec<Group>) {
    let man = |name: &str, ty: Type| Comp { name: name.into(), tag: None, ty, presence: Presence::Mandatory };
    let pairs: &[(&str, &str)] = &[("my-field", "myField"), ("ab-cd", "abCd"), ("a-b", "aB"), ("x1", "x-1"), ("value", "value-"), ("red-one", "redOne"), ("ab-c-d", "abC-d"), ("http-url", "httpUrl")];
    for (a, b) in pairs {
        if a.ends_with('-') || b.ends_with('-') {
            continue;
        }
        for (what, ty) in [
            ("colliding-components", Type::Sequence(Comps { root: vec![man(a, Type::Boolean), man(b, Type::int(0, 255))], ext: None })),
            ("colliding-alternatives", Type::Choice { root: vec![Alt { name: a.to_string(), tag: None, ty: Type::Boolean }, Alt { name: b.to_string(), tag: None, ty: Type::int(0, 255) }], ext: None }),
            ("colliding-enumeration-items", Type::Enumerated { root: vec![EnumItem { name: a.to_string(), num: None }, EnumItem { name: b.to_string(), num: None }], ext: None }),
            ("colliding-named-numbers", Type::Integer { c: Some(IntC { lo: Bound::Lit(0), hi: Bound::Lit(255), ext: false }), named: vec![(a.to_string(), 1), (b.to_string(), 2)] }),
        ] {
            let gi = groups.len();
            let mut m = Module::new(&module_name(gi, 0));
            m.push_def(def("Subject", ty));
            groups.push(note_group("c09col", m, what, &format!("{} / {}", a, b)));
        }
        // value references
        let gi = groups.len();
        let mut m = Module::new(&module_name(gi, 0));
        m.push_value(ValueDef { name: a.to_string(), ty: Type::int_unconstrained(), lit: Lit::Int(1) });
        m.push_value(ValueDef { name: b.to_string(), ty: Type::int_unconstrained(), lit: Lit::Int(2) });
        m.push_def(def("Subject", Type::Integer { c: Some(IntC { lo: Bound::Ref(a.to_string()), hi: Bound::Ref(b.to_string()), ext: false }), named: vec![] }));
        groups.push(note_group("c09col", m, "colliding-value-references", &format!("{} / {}", a, b)));
    }
    // type references that meet after mangling, and an inline type meeting a top-level one
    for (a, b) in [("My-Type", "MyType"), ("Ab-Cd", "AbCd"), ("Http-URL", "HttpURL")] {
        let gi = groups.len();
        let mut m = Module::new(&module_name(gi, 0));
        m.push_def(def(a, Type::Sequence(Comps { root: vec![man("x", Type::Boolean)], ext: None })));
        m.push_def(def(b, Type::Sequence(Comps { root: vec![man("y", Type::int(0, 255))], ext: None })));
        groups.push(note_group("c09col", m, "colliding-type-references", &format!("{} / {}", a, b)));
    }
    {
        let gi = groups.len();
        let mut m = Module::new(&module_name(gi, 0));
        m.push_def(def("Parent", Type::Sequence(Comps { root: vec![man("field", Type::Sequence(Comps { root: vec![man("x", Type::Boolean)], ext: None }))], ext: None })));
        m.push_def(def("ParentField", Type::Sequence(Comps { root: vec![man("y", Type::int(0, 255))], ext: None })));
        groups.push(note_group("c09col", m, "inline-type-meets-top-level-type", "Parent.field / ParentField"));
    }
    {
        let gi = groups.len();
        let mut m = Module::new(&module_name(gi, 0));
        m.push_def(def(
            "Parent",
            Type::Sequence(Comps {
                root: vec![
                    man("some-field", Type::Sequence(Comps { root: vec![man("x", Type::Boolean)], ext: None })),
                    man("someField", Type::Choice { root: vec![Alt { name: "y".into(), tag: None, ty: Type::Null }], ext: None }),
                ],
                ext: None,
            }),
        ));
        groups.push(note_group("c09col", m, "two-inline-types-meet", "Parent.some-field / Parent.someField"));
    }
    // names of the prelude, of primitive types and of items the generated code itself uses
    for name in ["Option", "Vec", "String", "Result", "Box", "Some", "None", "Ok", "Err", "Default", "Clone", "Debug", "PartialEq", "Copy", "Sized", "Iterator", "Into", "From", "Null", "BitVec", "Reader", "Writer", "Readable", "Writable", "Error", "Self-", "U8", "Bool", "Str", "Constraint", "Sequence", "Choice", "Enumerated", "Integer", "Utf8String", "OctetString", "Tag", "Value", "Type", "Crate", "Asn1rs", "Core", "Std"] {
        if name.ends_with('-') {
            continue;
        }
        for (what, ty) in [
            ("prelude-like-name:SEQUENCE", Type::Sequence(Comps { root: vec![man("a", Type::Boolean), Comp { name: "b".into(), tag: None, ty: Type::int(0, 255), presence: Presence::Optional }, man("c", Type::SequenceOf { elem: Box::new(Type::CharString { cs: Charset::Utf8, size: Size::None }), size: Size::None })], ext: None })),
            ("prelude-like-name:ENUMERATED", Type::Enumerated { root: vec![EnumItem { name: "a".into(), num: None }, EnumItem { name: "b".into(), num: None }], ext: None }),
            ("prelude-like-name:INTEGER", Type::int(0, 255)),
        ] {
            let gi = groups.len();
            let mut m = Module::new(&module_name(gi, 0));
            m.push_def(def(name, ty));
            m.push_def(def("User", Type::Sequence(Comps { root: vec![man("inner", Type::Ref(name.to_string())), Comp { name: "maybe".into(), tag: None, ty: Type::Ref(name.to_string()), presence: Presence::Optional }], ext: None })));
            groups.push(note_group("c09pre", m, what, name));
        }
    }
    // component names that meet generated method names / locals
    for name in ["value", "values", "new", "default", "clone", "min", "max", "value-min", "value-max", "index", "variant", "variants", "reader", "writer", "read", "write", "len", "is-empty", "eq", "fmt", "into", "from", "u8", "i64", "bool", "str", "string", "vec", "option", "some", "none", "ok", "err", "result", "x0", "a", "e"] {
        let gi = groups.len();
        let mut m = Module::new(&module_name(gi, 0));
        m.push_def(def(
            "Holder",
            Type::Sequence(Comps {
                root: vec![
                    man(name, Type::int(0, 255)),
                    Comp { name: format!("{}-opt", name), tag: None, ty: Type::int(-5, 5), presence: Presence::Optional },
                    Comp { name: format!("{}-def", name), tag: None, ty: Type::int(0, 255), presence: Presence::Default(DefaultVal::Lit(Lit::Int(7))) },
                ],
                ext: None,
            }),
        ));
        m.push_def(def("Pick", Type::Choice { root: vec![Alt { name: name.to_string(), tag: None, ty: Type::int(0, 255) }, Alt { name: "other".into(), tag: None, ty: Type::Boolean }], ext: None }));
        m.push_def(def("Kind", Type::Enumerated { root: vec![EnumItem { name: name.to_string(), num: None }, EnumItem { name: "other".into(), num: None }], ext: None }));
        m.push_def(def("Wrap", Type::Integer { c: Some(IntC { lo: Bound::Lit(0), hi: Bound::Lit(255), ext: false }), named: vec![(name.to_string(), 1)] }));
        groups.push(note_group("c09col", m, "method-like-names", name));
    }
}

/// value references and DEFAULTs of every kind, with awkward literals
pub fn c09_consts(groups: &mut Vec<Group>) {
    let man = |name: &str, ty: Type| Comp { name: name.into(), tag: None, ty, presence: Presence::Mandatory };
    let dflt = |name: &str, ty: Type, l: Lit| Comp { name: name.into(), tag: None, ty, presence: Presence::Default(DefaultVal::Lit(l)) };
    let dref = |name: &str, ty: Type, r: &str| Comp { name: name.into(), tag: None, ty, presence: Presence::Default(DefaultVal::Ref(r.to_string())) };
    let utf8 = || Type::CharString { cs: Charset::Utf8, size: Size::None };
    let strings = ["", "plain", "he said \"hi\"", "back\\slash", "brace{}s", "tab\tin", "uni\u{e9}\u{20ac}", "percent %d {0}", "r#\"raw\"#", "line1\nline2", "'single'", "trailing\\"];
    let ints: &[i128] = &[0, 1, -1, 255, 256, -128, -129, 65535, 65536, 2147483647, 2147483648, -2147483648, -2147483649, 4294967295, 4294967296, i64::MAX as i128, i64::MIN as i128];
    // one group per literal kind and use, so that one failure does not hide another
    for (k, v) in ints.iter().enumerate() {
        // value reference of INTEGER type, used as bound where it fits
        let gi = groups.len();
        let mut m = Module::new(&module_name(gi, 0));
        m.push_value(ValueDef { name: format!("num{}", k), ty: Type::int_unconstrained(), lit: Lit::Int(*v) });
        groups.push(note_group("c09const", m, "integer-value-reference", &format!("{}", v)));
        // constrained so that the value fits the constraint
        let gi = groups.len();
        let mut m = Module::new(&module_name(gi, 0));
        let (lo, hi) = ((*v).min(0) - 1, (*v).max(0) + 1);
        if lo >= i64::MIN as i128 && hi <= i64::MAX as i128 {
            m.push_value(ValueDef { name: format!("num{}", k), ty: Type::int(lo, hi), lit: Lit::Int(*v) });
            m.push_def(def("Holder", Type::Sequence(Comps { root: vec![dflt("a", Type::int(lo, hi), Lit::Int(*v)), dref("b", Type::int(lo, hi), &format!("num{}", k)), man("c", Type::Boolean)], ext: None })));
            groups.push(note_group("c09const", m, "integer-default-literal-and-reference", &format!("{}", v)));
        }
        // unconstrained INTEGER DEFAULT
        let gi = groups.len();
        let mut m = Module::new(&module_name(gi, 0));
        m.push_def(def("Holder", Type::Sequence(Comps { root: vec![dflt("a", Type::int_unconstrained(), Lit::Int(*v))], ext: None })));
        groups.push(note_group("c09const", m, "unconstrained-integer-default", &format!("{}", v)));
    }
    for (k, s) in strings.iter().enumerate() {
        for (csname, cs) in [("UTF8String", Charset::Utf8), ("IA5String", Charset::Ia5), ("PrintableString", Charset::Printable), ("VisibleString", Charset::Visible)] {
            if !s.chars().all(|c| cs.alphabet().contains(&c)) {
                continue;
            }
            let ty = Type::CharString { cs, size: Size::None };
            let gi = groups.len();
            let mut m = Module::new(&module_name(gi, 0));
            m.push_value(ValueDef { name: format!("text{}", k), ty: ty.clone(), lit: Lit::Str(s.to_string()) });
            groups.push(note_group("c09const", m, &format!("string-value-reference:{}", csname), s));
            let gi = groups.len();
            let mut m = Module::new(&module_name(gi, 0));
            m.push_value(ValueDef { name: format!("text{}", k), ty: ty.clone(), lit: Lit::Str(s.to_string()) });
            m.push_def(def("Holder", Type::Sequence(Comps { root: vec![dflt("a", ty.clone(), Lit::Str(s.to_string())), dref("b", ty.clone(), &format!("text{}", k))], ext: None })));
            groups.push(note_group("c09const", m, &format!("string-default-literal-and-reference:{}", csname), s));
        }
    }
    for (what, l) in [("TRUE", Lit::Bool(true)), ("FALSE", Lit::Bool(false))] {
        let gi = groups.len();
        let mut m = Module::new(&module_name(gi, 0));
        m.push_value(ValueDef { name: "flag".into(), ty: Type::Boolean, lit: l.clone() });
        m.push_def(def("Holder", Type::Sequence(Comps { root: vec![dflt("a", Type::Boolean, l.clone()), dref("b", Type::Boolean, "flag")], ext: None })));
        groups.push(note_group("c09const", m, "boolean-default-literal-and-reference", what));
    }
    for (what, l) in [("hstring", Lit::Hex(vec![0xDE, 0xAD, 0xBE, 0xEF])), ("empty-hstring", Lit::Hex(vec![])), ("bstring", Lit::Bin(vec![true, false, true, false, true, true, false, false])), ("long-hstring", Lit::Hex((0..40).collect()))] {
        let gi = groups.len();
        let mut m = Module::new(&module_name(gi, 0));
        m.push_value(ValueDef { name: "blob".into(), ty: Type::OctetString { size: Size::None }, lit: l.clone() });
        groups.push(note_group("c09const", m, "octet-string-value-reference", what));
        let gi = groups.len();
        let mut m = Module::new(&module_name(gi, 0));
        m.push_value(ValueDef { name: "blob".into(), ty: Type::OctetString { size: Size::None }, lit: l.clone() });
        m.push_def(def("Holder", Type::Sequence(Comps { root: vec![dflt("a", Type::OctetString { size: Size::None }, l.clone()), dref("b", Type::OctetString { size: Size::None }, "blob")], ext: None })));
        groups.push(note_group("c09const", m, "octet-string-default-literal-and-reference", what));
        let gi = groups.len();
        let mut m = Module::new(&module_name(gi, 0));
        m.push_def(def("Holder", Type::Sequence(Comps { root: vec![dflt("a", Type::BitString { size: Size::None, named: vec![] }, l.clone())], ext: None })));
        groups.push(note_group("c09const", m, "bit-string-default-literal", what));
    }
    {
        // ENUMERATED defaults: inline and referenced, first / last item, item named like a keyword
        let items = |names: &[&str]| Type::Enumerated { root: names.iter().map(|n| EnumItem { name: n.to_string(), num: None }).collect(), ext: None };
        for (what, names, pick) in [("first-item", vec!["red", "green"], "red"), ("last-item", vec!["red", "green", "dark-blue"], "dark-blue"), ("keyword-item", vec!["type", "match"], "match"), ("item-named-true", vec!["false", "true"], "true"), ("single-letter-segments", vec!["x", "a-b-cd"], "a-b-cd"), ("upper-case-run", vec!["x", "httpURLx"], "httpURLx")] {
            // through a reference to the ENUMERATED
            let gi = groups.len();
            let mut m = Module::new(&module_name(gi, 0));
            m.push_def(def("Colour", items(&names)));
            m.push_def(def("Holder", Type::Sequence(Comps { root: vec![dflt("a", Type::Ref("Colour".into()), Lit::EnumItem(pick.to_string())), man("z", Type::Boolean)], ext: None })));
            groups.push(note_group("c09const", m, &format!("enumerated-default:referenced:{}", what), what));
            // inline ENUMERATED
            let gi = groups.len();
            let mut m = Module::new(&module_name(gi, 0));
            m.push_def(def("Holder", Type::Sequence(Comps { root: vec![dflt("b", items(&names), Lit::EnumItem(pick.to_string()))], ext: None })));
            groups.push(note_group("c09const", m, &format!("enumerated-default:inline:{}", what), what));
            // a value reference of another type carries the name of the item
            let gi = groups.len();
            let mut m = Module::new(&module_name(gi, 0));
            m.push_value(ValueDef { name: pick.to_string(), ty: Type::int(0, 100), lit: Lit::Int(50) });
            m.push_def(def("Colour", items(&names)));
            m.push_def(def("Holder", Type::Sequence(Comps { root: vec![dflt("a", Type::Ref("Colour".into()), Lit::EnumItem(pick.to_string())), dflt("n", Type::int(0, 100), Lit::Int(50))], ext: None })));
            groups.push(note_group("c09const", m, &format!("enumerated-default:item-shares-its-name-with-a-value-reference:{}", what), what));
        }
    }
    {
        // defaults behind references and in nested / extension positions
        let gi = groups.len();
        let mut m = Module::new(&module_name(gi, 0));
        m.push_def(def("Small", Type::int(0, 7)));
        m.push_def(def("Text", utf8()));
        m.push_def(def(
            "Holder",
            Type::Sequence(Comps {
                root: vec![dflt("a", Type::Ref("Small".into()), Lit::Int(3)), dflt("t", Type::Ref("Text".into()), Lit::Str("x".into())), man("inner", Type::Sequence(Comps { root: vec![dflt("deep", Type::int(-5, 5), Lit::Int(-5))], ext: None }))],
                ext: Some(vec![dflt("later", Type::int(0, 65535), Lit::Int(65535))]),
            }),
        ));
        groups.push(note_group("c09const", m, "defaults-behind-references-and-nested", ""));
    }
}

/// random modules from the full front-end grammar with the hostile identifier pool
pub fn c09_random(groups: &mut Vec<Group>, rng: &mut Rng, tier: &str) {
    let n = if tier == "quick" { 120 } else { 1500 };
    for k in 0..n {
        let gi = groups.len();
        // the preconditions of the recorded findings (names that meet after mangling, `self`, BIT STRING constants,
        // negative literals for unconstrained INTEGER) are pinned by the systematic families and kept out of the random
        // modules, so that every rustc error in a random module is a new observation
        let mut cfg = GenCfg::front();
        cfg.hostile_idents = k % 2 == 0;
        cfg.hostile_collisions = false;
        cfg.unrepresentable_ints = false;
        cfg.min_max_bounds = false; // every MIN/MAX form has its own module in c09_intforms
        cfg.oids = k % 3 == 0;
        let mut g = Gen::new(rng, cfg);
        let nd = g.rng.range(1, 4) as usize;
        let mut m = g.gen_module(&module_name(gi, 0), nd);
        sanitize(&mut m);
        let mut grp = Group::new("c09rand", vec![m]);
        grp.inline_macro = k % 4 == 1;
        groups.push(grp);
    }
}

/// every INTEGER constraint form (closed, one-sided with MIN/MAX, extensible) as definition, component, OPTIONAL
/// component and alternative - one module per form
pub fn c09_intforms(groups: &mut Vec<Group>) {
    let los: [Option<i128>; 5] = [None, Some(-5), Some(0), Some(5), Some(-3000000000)];
    let his: [Option<i128>; 6] = [None, Some(-3), Some(0), Some(5), Some(300), Some(5000000000)];
    for lo in los {
        for hi in his {
            if let (Some(a), Some(b)) = (lo, hi) {
                if a > b {
                    continue;
                }
            }
            for ext in [false, true] {
                let c = IntC { lo: lo.map(Bound::Lit).unwrap_or(Bound::Min), hi: hi.map(Bound::Lit).unwrap_or(Bound::Max), ext };
                let ty = Type::Integer { c: Some(c), named: vec![] };
                let form = format!("({}..{}{})", lo.map(|v| v.to_string()).unwrap_or("MIN".into()), hi.map(|v| v.to_string()).unwrap_or("MAX".into()), if ext { ",..." } else { "" });
                let gi = groups.len();
                let mut m = Module::new(&module_name(gi, 0));
                m.push_def(def("Top", ty.clone()));
                m.push_def(def(
                    "Holder",
                    Type::Sequence(Comps {
                        root: vec![
                            Comp { name: "plain".into(), tag: None, ty: ty.clone(), presence: Presence::Mandatory },
                            Comp { name: "maybe".into(), tag: None, ty: ty.clone(), presence: Presence::Optional },
                            Comp { name: "many".into(), tag: None, ty: Type::SequenceOf { elem: Box::new(ty.clone()), size: Size::None }, presence: Presence::Mandatory },
                            Comp { name: "named".into(), tag: None, ty: Type::Ref("Top".into()), presence: Presence::Mandatory },
                        ],
                        ext: None,
                    }),
                ));
                m.push_def(def("Pick", Type::Choice { root: vec![Alt { name: "num".into(), tag: None, ty: ty.clone() }, Alt { name: "other".into(), tag: None, ty: Type::Boolean }], ext: None }));
                groups.push(note_group("c09int", m, &format!("integer-form:{}", form), &form));
            }
        }
    }
}
