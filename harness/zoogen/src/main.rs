//! zoogen: generates the zoo workspace (DESIGN.md 3.5): ASN.1 modules from vgen pushed through the real
//! front end (Converter / asn_to_rust!), a dispatch table and schema.json for zoorun.
use asn1rs::converter::Converter;
use monitors::journal::guarded;
use monitors::report::Args;
use serde_json::json;
use std::collections::BTreeMap;
use std::fmt::Write as _;
use std::path::{Path, PathBuf};
use vgen::gen::{Gen, GenCfg};
use vgen::print::print_module;
use vgen::rng::Rng;
use vgen::schema::*;

mod families;

pub struct Group {
    pub family: String,
    pub modules: Vec<Module>,
    /// emit through the inline macro instead of the Converter (single-module groups only)
    pub inline_macro: bool,
    /// for the compat family: (definition in module 0, definition in module 1) pairs
    pub pairs: Vec<(String, String)>,
    /// free-form per-definition annotation handed to zoorun (e.g. the C03 shape)
    pub notes: BTreeMap<String, serde_json::Value>,
}

impl Group {
    pub fn new(family: &str, modules: Vec<Module>) -> Group {
        Group { family: family.to_string(), modules, inline_macro: false, pairs: vec![], notes: BTreeMap::new() }
    }
}

thread_local! {
    static WRITTEN: std::cell::RefCell<std::collections::BTreeSet<PathBuf>> = std::cell::RefCell::new(Default::default());
}

/// generated sources of an earlier run (other tier parameters, excluded groups) that were not written this time
fn remove_stale_sources(out: &Path) {
    fn walk(dir: &Path, keep: &std::collections::BTreeSet<PathBuf>) {
        if let Ok(rd) = std::fs::read_dir(dir) {
            for e in rd.flatten() {
                let p = e.path();
                if p.is_dir() {
                    walk(&p, keep);
                    let _ = std::fs::remove_dir(&p); // only succeeds when empty
                } else if !keep.contains(&p) {
                    let _ = std::fs::remove_file(&p);
                }
            }
        }
    }
    WRITTEN.with(|w| {
        let keep = w.borrow();
        if let Ok(rd) = std::fs::read_dir(out) {
            for e in rd.flatten() {
                let p = e.path();
                if p.is_dir() && p.file_name().map(|n| n.to_string_lossy().starts_with("shard_")).unwrap_or(false) {
                    walk(&p.join("src"), &keep);
                }
            }
        }
    });
}

fn write_if_changed(path: &Path, content: &str) {
    WRITTEN.with(|w| w.borrow_mut().insert(path.to_path_buf()));
    if let Ok(old) = std::fs::read_to_string(path) {
        if old == content {
            return;
        }
    }
    if let Some(p) = path.parent() {
        std::fs::create_dir_all(p).unwrap();
    }
    std::fs::write(path, content).unwrap();
}

fn rust_module_name(name: &str) -> String {
    // only used for names this generator makes up itself (Zm<k>x<j>): lower-case with underscores
    let mut out = String::new();
    for (i, c) in name.chars().enumerate() {
        if c.is_uppercase() && i > 0 {
            out.push('_');
        }
        out.extend(c.to_lowercase());
    }
    out
}

struct Emitted {
    /// (module index, rust module path below the group module, file content)
    files: Vec<(usize, String, String)>,
}

fn emit_group(g: &Group, scratch: &Path) -> Result<Emitted, String> {
    let texts: Vec<String> = g.modules.iter().map(print_module).collect();
    if g.inline_macro && g.modules.len() == 1 {
        // the proc-macro runs the same front end at compile time; check acceptance here to attribute rejections
        let t = texts[0].clone();
        match guarded(|| asn1rs::model::proc_macro::asn_to_rust(&t)) {
            Ok(_) => {}
            Err(p) => return Err(format!("front end panicked: {}", p.signature())),
        }
        let content = format!("use asn1rs::prelude::*;\nasn_to_rust!(r####\"{}\"####);\n", texts[0]);
        return Ok(Emitted { files: vec![(0, "inline".to_string(), content)] });
    }
    let dir = scratch.join("asn");
    let out = scratch.join("rs");
    let _ = std::fs::remove_dir_all(scratch);
    std::fs::create_dir_all(&dir).unwrap();
    std::fs::create_dir_all(&out).unwrap();
    let r = guarded(|| -> Result<Vec<(usize, String, String)>, String> {
        let mut conv = Converter::default();
        for (i, t) in texts.iter().enumerate() {
            let p = dir.join(format!("m{}.asn1", i));
            std::fs::write(&p, t).unwrap();
            conv.load_file(&p).map_err(|e| format!("load_file: {:?}", e).chars().take(300).collect::<String>())?;
        }
        let map = conv.to_rust(&out, |_| {}).map_err(|e| format!("to_rust: {:?}", e).chars().take(300).collect::<String>())?;
        let mut files = Vec::new();
        for (i, m) in g.modules.iter().enumerate() {
            let nice = {
                let mut n = m.name.clone();
                for suffix in ["_Module", "Module"] {
                    if n.ends_with(suffix) {
                        n.truncate(n.len() - suffix.len());
                    }
                }
                n
            };
            let fl = map.get(&nice).ok_or_else(|| format!("to_rust returned no file for module {}", nice))?;
            let file = fl.first().ok_or("empty file list")?;
            let content = std::fs::read_to_string(out.join(file)).map_err(|e| e.to_string())?;
            files.push((i, file.trim_end_matches(".rs").to_string(), content));
        }
        Ok(files)
    });
    let _ = std::fs::remove_dir_all(scratch);
    match r {
        Ok(Ok(files)) => Ok(Emitted { files }),
        Ok(Err(e)) => Err(e),
        Err(p) => Err(format!("front end panicked: {}", p.signature())),
    }
}

/// the .proto files the real protobuf generator emits for the modules of a group: (module index, file name, text)
fn emit_protos(g: &Group, scratch: &Path) -> Result<Vec<(usize, String, String)>, String> {
    let texts: Vec<String> = g.modules.iter().map(print_module).collect();
    let dir = scratch.join("asn-p");
    let out = scratch.join("proto");
    let _ = std::fs::remove_dir_all(scratch);
    std::fs::create_dir_all(&dir).unwrap();
    std::fs::create_dir_all(&out).unwrap();
    let r = guarded(|| -> Result<Vec<(usize, String, String)>, String> {
        let mut conv = Converter::default();
        for (i, t) in texts.iter().enumerate() {
            let p = dir.join(format!("m{}.asn1", i));
            std::fs::write(&p, t).unwrap();
            conv.load_file(&p).map_err(|e| format!("load_file: {:?}", e).chars().take(300).collect::<String>())?;
        }
        let map = conv.to_protobuf(&out).map_err(|e| format!("to_protobuf: {:?}", e).chars().take(300).collect::<String>())?;
        let mut files = Vec::new();
        for (i, m) in g.modules.iter().enumerate() {
            let nice = {
                let mut n = m.name.clone();
                for suffix in ["_Module", "Module"] {
                    if n.ends_with(suffix) {
                        n.truncate(n.len() - suffix.len());
                    }
                }
                n
            };
            let fl = map.get(&nice).or_else(|| map.get(&m.name)).ok_or_else(|| format!("to_protobuf returned no file for module {}", nice))?;
            let file = fl.first().ok_or("empty file list")?;
            let content = std::fs::read_to_string(out.join(file)).map_err(|e| e.to_string())?;
            files.push((i, file.to_string(), content));
        }
        Ok(files)
    });
    let _ = std::fs::remove_dir_all(scratch);
    match r {
        Ok(Ok(files)) => Ok(files),
        Ok(Err(e)) => Err(e),
        Err(p) => Err(format!("protobuf generator panicked: {}", p.signature())),
    }
}

fn main() {
    let args = Args::parse();
    let tier = args.str("tier", "quick");
    let seed = args.u64("seed", 1);
    let out = PathBuf::from(args.str("out", "/verif/work/zoo-quick-1"));
    let nshards = args.u64("shards", 8) as usize;
    let families = args.str("families", "rand,large,shapes,compat,sets,edges,hostile,protoedge,corpus");
    let harness = args.str("harness", "/verif/harness");
    let compile_only = args.flag("compile-only");
    let mut group_index: Vec<serde_json::Value> = Vec::new();
    let exclude: Vec<String> = args.get("exclude").map(|s| s.split(',').map(|x| x.to_string()).collect()).unwrap_or_default();
    monitors::journal::install();

    let mut groups: Vec<Group> = Vec::new();
    for fam in families.split(',') {
        let mut rng = Rng::derive(seed, &["zoo", fam], 0);
        match fam {
            "rand" => families::rand(&mut groups, &mut rng, &tier),
            "large" => families::large(&mut groups),
            "shapes" => families::shapes(&mut groups, &tier),
            "compat" => families::compat(&mut groups, &mut rng, &tier),
            "sets" => families::sets(&mut groups, &mut rng, &tier),
            "edges" => families::edges(&mut groups, &mut rng),
            "hostile" => families::hostile(&mut groups),
            "protoedge" => families::protoedge(&mut groups),
            "corpus" => {}
            "c09kw" => families::c09_keywords(&mut groups),
            "c09col" => families::c09_collisions(&mut groups),
            "c09const" => families::c09_consts(&mut groups),
            "c09int" => families::c09_intforms(&mut groups),
            "c09rand" => families::c09_random(&mut groups, &mut rng, &tier),
            other => eprintln!("unknown family {}", other),
        }
    }
    // --- emit through the real front end
    let scratch = out.join("scratch");
    let mut rejected: Vec<serde_json::Value> = Vec::new();
    let mut shard_mods: Vec<String> = vec![String::new(); nshards];
    let mut shard_arms: Vec<String> = vec![String::new(); nshards];
    let mut shard_pair_arms: Vec<String> = vec![String::new(); nshards];
    let mut types: Vec<serde_json::Value> = Vec::new();
    let mut universes: Vec<Universe> = Vec::new();
    let mut protos: Vec<serde_json::Value> = Vec::new();
    let mut type_id = 0usize;
    let mut emitted_groups = 0usize;
    for (gi, g) in groups.iter().enumerate() {
        let gname = format!("g_{}", gi);
        if exclude.contains(&gname) {
            rejected.push(json!({"group": gname, "family": g.family, "reason": "excluded after a compile error (C09 observation)"}));
            group_index.push(json!({"group": gname, "family": g.family, "excluded": true, "note": g.notes.get("c09").cloned().unwrap_or(serde_json::Value::Null), "asn1": g.modules.iter().map(print_module).collect::<Vec<_>>()}));
            continue;
        }
        let emitted = match emit_group(g, &scratch) {
            Ok(e) => e,
            Err(reason) => {
                group_index.push(json!({"group": gname, "family": g.family, "rejected": reason, "note": g.notes.get("c09").cloned().unwrap_or(serde_json::Value::Null), "asn1": g.modules.iter().map(print_module).collect::<Vec<_>>()}));
                rejected.push(json!({"group": gname, "family": g.family, "reason": reason, "asn1": g.modules.iter().map(print_module).collect::<Vec<_>>()}));
                continue;
            }
        };
        let shard = emitted_groups % nshards;
        emitted_groups += 1;
        let ui = universes.len();
        universes.push(Universe { modules: g.modules.clone() });
        if ["rand", "protoedge", "edges", "sets", "hostile"].contains(&g.family.as_str()) {
            match emit_protos(g, &scratch) {
                Ok(files) => protos.push(json!({"universe": ui, "files": files.iter().map(|(mi, f, c)| json!({"module": mi, "file": f, "text": c})).collect::<Vec<_>>()})),
                Err(e) => protos.push(json!({"universe": ui, "error": e})),
            }
        }
        let _ = writeln!(shard_mods[shard], "pub mod {} {{", gname);
        let mut mod_paths: BTreeMap<usize, String> = BTreeMap::new();
        for (mi, modname, content) in &emitted.files {
            let _ = writeln!(shard_mods[shard], "    pub mod {};", modname);
            write_if_changed(&out.join(format!("shard_{}/src/{}/{}.rs", shard, gname, modname)), content);
            mod_paths.insert(*mi, format!("{}::{}", gname, modname));
        }
        let _ = writeln!(shard_mods[shard], "}}");
        group_index.push(json!({"group": gname, "family": g.family, "shard": shard, "inline_macro": g.inline_macro, "note": g.notes.get("c09").cloned().unwrap_or(serde_json::Value::Null),
            "asn1": g.modules.iter().map(print_module).collect::<Vec<_>>(), "files": emitted.files.iter().map(|f| f.1.clone()).collect::<Vec<_>>()}));
        if compile_only {
            continue;
        }
        for (mi, m) in g.modules.iter().enumerate() {
            let path = match mod_paths.get(&mi) {
                Some(p) => p.clone(),
                None => continue,
            };
            let content = &emitted.files.iter().find(|f| f.0 == mi).unwrap().2;
            for d in &m.defs {
                // the Rust type must exist under the name the safe identifier pool predicts (inline macro: not checkable here)
                if !g.inline_macro && !content.contains(&format!("pub struct {}", d.name)) && !content.contains(&format!("pub enum {}", d.name)) {
                    rejected.push(json!({"group": gname, "family": g.family, "reason": format!("generated file has no type named {}", d.name)}));
                    continue;
                }
                let _ = writeln!(shard_arms[shard], "        {} => monitors::zoo::run::<{}::{}>(ctx, e),", type_id, path, d.name);
                types.push(json!({"id": type_id, "shard": shard, "universe": ui, "module": mi, "def": d.name, "family": g.family,
                    "note": g.notes.get(&d.name).cloned().unwrap_or(serde_json::Value::Null)}));
                type_id += 1;
            }
        }
        for (a, b) in &g.pairs {
            if let (Some(pa), Some(pb)) = (mod_paths.get(&0), mod_paths.get(&1)) {
                let _ = writeln!(shard_pair_arms[shard], "        {} => monitors::zoo::run_pair::<{}::{}, {}::{}>(ctx, e),", type_id, pa, a, pb, b);
                types.push(json!({"id": type_id, "shard": shard, "universe": ui, "module": 0, "def": a, "family": format!("{}-pair", g.family), "pair_def": b, "note": g.notes.get(a).cloned().unwrap_or(serde_json::Value::Null)}));
                type_id += 1;
            }
        }
    }
    // --- corpus: inline modules of the repository's tests, through the macro
    if families.split(',').any(|f| f == "corpus") {
        for (ci, (name, text)) in corpus().into_iter().enumerate() {
            let gname = format!("c_{}", ci);
            if exclude.contains(&gname) {
                continue;
            }
            let names = match guarded(|| corpus_type_names(&text)) {
                Ok(Some(n)) => n,
                _ => continue,
            };
            let shard = emitted_groups % nshards;
            emitted_groups += 1;
            let _ = writeln!(shard_mods[shard], "pub mod {} {{ pub mod inline; }}", gname);
            write_if_changed(&out.join(format!("shard_{}/src/{}/inline.rs", shard, gname)), &format!("use asn1rs::prelude::*;\nasn_to_rust!(r####\"{}\"####);\n", text));
            for n in names {
                let _ = writeln!(shard_arms[shard], "        {} => monitors::zoo::run_schemaless::<{}::inline::{}>(ctx, e),", type_id, gname, n);
                types.push(json!({"id": type_id, "shard": shard, "universe": null, "module": 0, "def": n, "family": "corpus", "origin": name, "note": null}));
                type_id += 1;
            }
        }
    }
    // --- workspace files
    let lock = std::fs::read_to_string(format!("{}/Cargo.lock", harness)).unwrap_or_default();
    write_if_changed(&out.join("Cargo.lock"), &lock);
    let mut members = String::new();
    let mut deps = String::new();
    let mut dispatch = String::new();
    for s in 0..nshards {
        let _ = write!(members, "\"shard_{}\", ", s);
        let _ = writeln!(deps, "shard_{} = {{ path = \"../shard_{}\" }}", s, s);
        let _ = writeln!(dispatch, "        {} => shard_{}::dispatch(ctx, e),", s, s);
        write_if_changed(
            &out.join(format!("shard_{}/Cargo.toml", s)),
            &format!(
                "[package]\nname = \"shard_{s}\"\nversion = \"0.1.0\"\nedition = \"2021\"\n\n[features]\nddesc = [\"monitors/ddesc\"]\n\n[dependencies]\nasn1rs = {{ path = \"/repo\", default-features = false, features = [\"macros\", \"model\", \"protobuf\"] }}\nmonitors = {{ path = \"{h}/monitors\" }}\n",
                s = s,
                h = harness
            ),
        );
        write_if_changed(
            &out.join(format!("shard_{}/src/lib.rs", s)),
            &format!(
                "#![allow(warnings)]\n{mods}\npub fn dispatch(ctx: &mut monitors::zoo::ZooCtx, e: &monitors::zoo::TypeEntry) -> bool {{\n    match e.id {{\n{arms}{pair_arms}        _ => return false,\n    }}\n    true\n}}\n",
                mods = shard_mods[s],
                arms = shard_arms[s],
                pair_arms = shard_pair_arms[s]
            ),
        );
    }
    write_if_changed(
        &out.join("Cargo.toml"),
        &format!(
            "[workspace]\nmembers = [{}\"zoorun\"]\nresolver = \"2\"\n\n[profile.checked]\ninherits = \"dev\"\nopt-level = 0\ndebug = \"line-tables-only\"\noverflow-checks = true\ndebug-assertions = true\nincremental = false\n\n[profile.checked.package.\"*\"]\nopt-level = 2\n\n[profile.checked.package.monitors]\nopt-level = 2\n\n[profile.wrapping]\ninherits = \"dev\"\nopt-level = 0\ndebug = \"line-tables-only\"\noverflow-checks = false\ndebug-assertions = false\nincremental = false\n\n[profile.wrapping.package.\"*\"]\nopt-level = 2\n",
            members
        ),
    );
    write_if_changed(&out.join(".cargo/config.toml"), "[net]\noffline = true\n");
    let ddesc_feats: String = (0..nshards).map(|s| format!("\"shard_{}/ddesc\"", s)).collect::<Vec<_>>().join(", ");
    write_if_changed(
        &out.join("zoorun/Cargo.toml"),
        &format!(
            "[package]\nname = \"zoorun\"\nversion = \"0.1.0\"\nedition = \"2021\"\n\n[[bin]]\nname = \"{binname}\"\npath = \"src/main.rs\"\n\n[features]\nddesc = [\"monitors/ddesc\", {ddesc}]\n\n[dependencies]\nasn1rs = {{ path = \"/repo\", default-features = false, features = [\"macros\", \"model\", \"protobuf\"] }}\nmonitors = {{ path = \"{h}/monitors\" }}\nvgen = {{ path = \"{h}/vgen\" }}\nserde_json = \"1\"\n{deps}",
            ddesc = ddesc_feats,
            h = harness,
            deps = deps,
            // the cargo target directory is shared by the zoos of all (tier, seed): a binary name of its own keeps the
            // uplifted executables apart
            binname = format!("zoorun_{}_{}", tier, seed)
        ),
    );
    let template = std::fs::read_to_string(format!("{}/zoorun-template/main.rs", harness)).expect("zoorun template");
    write_if_changed(&out.join("zoorun/src/main.rs"), &template.replace("/*DISPATCH*/", &dispatch));
    if compile_only {
        write_if_changed(&out.join("groups.json"), &serde_json::to_string(&group_index).unwrap());
    }
    remove_stale_sources(&out);
    write_if_changed(
        &out.join("schema.json"),
        &serde_json::to_string(&json!({"tier": tier, "seed": seed, "universes": universes, "types": types, "rejected": rejected, "protos": protos})).unwrap(),
    );
    println!(
        "zoogen: {} groups, {} emitted, {} rejected, {} types, {} shards -> {}",
        groups.len(),
        emitted_groups,
        rejected.len(),
        types.len(),
        nshards,
        out.display()
    );
    for r in rejected.iter().take(5) {
        println!("  rejected: {} {}", r["group"], r["reason"]);
    }
}

pub fn corpus() -> Vec<(String, String)> {
    let mut out = Vec::new();
    let dir = match std::fs::read_dir("/repo/tests") {
        Ok(d) => d,
        Err(_) => return out,
    };
    let mut files: Vec<_> = dir.flatten().map(|e| e.path()).filter(|p| p.extension().map(|e| e == "rs").unwrap_or(false)).collect();
    files.sort();
    for f in files {
        let text = match std::fs::read_to_string(&f) {
            Ok(t) => t,
            Err(_) => continue,
        };
        let mut rest = &text[..];
        let mut k = 0;
        while let Some(pos) = rest.find("asn_to_rust!(") {
            rest = &rest[pos + 13..];
            let r = rest.trim_start();
            let (open, close) = if r.starts_with("r#\"") { ("r#\"", "\"#") } else if r.starts_with("r\"") { ("r\"", "\"") } else { continue };
            let body = &r[open.len()..];
            if let Some(end) = body.find(close) {
                let module = &body[..end];
                if module.contains("BEGIN") && module.contains("END") && !module.contains("####") {
                    out.push((format!("{}#{}", f.file_name().unwrap().to_string_lossy(), k), module.to_string()));
                    k += 1;
                }
                rest = &body[end..];
            }
        }
    }
    out
}

/// names of the top-level Rust types the front end generates for a corpus module (None: rejected)
fn corpus_type_names(text: &str) -> Option<Vec<String>> {
    use asn1rs::model::parse::Tokenizer;
    use asn1rs::model::Model;
    let m = Model::try_from(Tokenizer.parse(text)).ok()?.try_resolve().ok()?;
    let top: Vec<String> = m.definitions.iter().map(|d| d.0.clone()).collect();
    let rust = m.to_rust();
    Some(rust.definitions.iter().map(|d| d.0.clone()).filter(|n| top.iter().any(|t| &rust_type_name(t) == n)).collect())
}

fn rust_type_name(name: &str) -> String {
    let mut out = String::new();
    let mut up = true;
    for c in name.chars() {
        if up {
            out.extend(c.to_uppercase());
            up = false;
        } else if c == '-' || c == '_' {
            up = true;
        } else {
            out.push(c);
        }
    }
    out
}

pub fn module_name(gi: usize, j: usize) -> String {
    format!("Zm{}x{}", gi, j)
}

pub fn gen_cfg_codec() -> GenCfg {
    GenCfg::codec()
}

pub fn new_gen<'r>(rng: &'r mut Rng, cfg: GenCfg) -> Gen<'r> {
    Gen::new(rng, cfg)
}

#[allow(dead_code)]
fn unused(_: &str) -> String {
    rust_module_name("")
}
